#!/usr/bin/env python3
"""python3-vt tools/validate.py — validate MANIFEST.json and every evidence file against the schemas."""
import json, glob, sys, jsonschema
ok = True
m = json.load(open('/verif/MANIFEST.json'))
jsonschema.validate(m, json.load(open('/root/.vp/MANIFEST.schema.json')))
es = json.load(open('/root/.vp/EVIDENCE.schema.json'))
for c in m['checks']:
    p = '/verif/' + c['evidence_file']
    try:
        jsonschema.validate(json.load(open(p)), es)
        print('ok', p)
    except Exception as e:
        ok = False
        print('BAD', p, str(e)[:200])
sys.exit(0 if ok else 1)
