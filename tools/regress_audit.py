#!/usr/bin/env python3
"""Run a check against every patch of the false-alarm audit (seeded/audit/<TAG>/<ID>_<k>.diff; development helper).

usage: tools/regress_audit.py [-j N] [prefix ...]
Each patch keeps its property true as stated (by the auditor's argument); the check named by the file name is run
with VERIF_REPO=<patched worktree>.  Prints exit code and finding keys per patch; the expected outcome per patch is
in seeded/audit/EXPECTED.json ('quiet' = the over-reach was corrected; anything else is documented there)."""
import concurrent.futures as cf, glob, json, os, re, shutil, subprocess, sys, tempfile
ROOT = os.path.dirname(os.path.dirname(os.path.abspath(__file__)))
args = sys.argv[1:]
jobs = 5
if '-j' in args:
    i = args.index('-j'); jobs = int(args[i + 1]); del args[i:i + 2]
items = []
for p in sorted(glob.glob(os.path.join(ROOT, 'seeded', 'audit', '*', '*.diff'))):
    base = os.path.basename(p)[:-5]
    tag = os.path.basename(os.path.dirname(p))
    m = re.match(r'^(C\d\d)_(\d+)$', base)
    if not m:
        continue
    name = base if tag in 'ABCDEFGHIJ' else f'{tag}/{base}'      # (round-1 names are unique; later rounds carry their tag)
    if args and not any(name.startswith(a) or base.startswith(a) for a in args):
        continue
    items.append((name, m.group(1), p))
try:
    EXPECTED = json.load(open(os.path.join(ROOT, 'seeded', 'audit', 'EXPECTED.json')))
except Exception:
    EXPECTED = {}


def one(item):
    name, pid, patch = item
    wt = tempfile.mkdtemp(prefix='ra_' + name.replace('/', '_') + '_', dir='/tmp'); os.rmdir(wt)
    evd = tempfile.mkdtemp(prefix='ev_ra_')
    try:
        subprocess.run(['git', '-C', '/repo', 'worktree', 'add', '-q', '--detach', wt, 'HEAD'], check=True, capture_output=True)
        r = subprocess.run(['git', '-C', wt, 'apply', patch], capture_output=True, text=True)
        if r.returncode:
            return name, 'PATCH-DOES-NOT-APPLY', ''
        env = dict(os.environ, VERIF_REPO=wt, VERIF_EVIDENCE_DIR=evd, VERIF_SEED=os.environ.get('VERIF_SEED', '1'))
        r = subprocess.run(['/venv/bin/python', os.path.join(ROOT, 'run_check.py'), pid, '--tier', 'quick'], env=env,
                           capture_output=True, text=True, timeout=3000)
        keys = sorted({l.strip().split('finding key: ')[-1] for l in r.stdout.split('\n') if 'finding key' in l})
        tail = ' '.join(keys[:3]) or (r.stdout + r.stderr).strip().split('\n')[-1][:160]
        return name, {0: 'quiet', 1: 'alarm', 2: 'harness-error'}.get(r.returncode, f'rc={r.returncode}'), tail if r.returncode else ''
    finally:
        subprocess.run(['git', '-C', '/repo', 'worktree', 'remove', '--force', wt], capture_output=True)
        shutil.rmtree(wt, ignore_errors=True); shutil.rmtree(evd, ignore_errors=True)


res = {}
with cf.ThreadPoolExecutor(jobs) as ex:
    for name, verdict, tail in ex.map(one, items):
        exp = (EXPECTED.get(name) or {}).get('expect')
        flag = '' if exp is None else ('' if exp == verdict else f'   <-- expected {exp}')
        print(f'{name:10s} {verdict:14s} {tail}{flag}', flush=True)
        res[name] = verdict
subprocess.run(['git', '-C', '/repo', 'worktree', 'prune'])
json.dump(res, open('/tmp/regress_audit_result.json', 'w'), indent=1)
bad = [n for n, v in res.items() if (EXPECTED.get(n) or {}).get('expect', v) != v]
print(f'{len(res)} patches: ' + ', '.join(f'{k} {sum(1 for v in res.values() if v == k)}' for k in sorted(set(res.values()))))
sys.exit(1 if bad else 0)
