#!/usr/bin/env python3
"""Validate a seeded change and run checks against it (development helper).

usage: tools/try_seeded.py <dir with patch.diff + demo> <ID> [check ids...] [--tier quick]
 1. fresh worktree of /repo HEAD outside /repo and /verif, `git apply patch.diff`
 2. baseline suite must still pass there (3583 passed)
 3. demo must exit 0 on /repo and non-zero on the patched tree
 4. each named check is run with VERIF_REPO=<patched tree>; exit 1 = caught
The worktree is removed afterwards.
"""
import json, os, subprocess, sys, tempfile, shutil
args = [a for a in sys.argv[1:] if not a.startswith('--')]
tier = 'quick'
if '--tier' in sys.argv:
    tier = sys.argv[sys.argv.index('--tier') + 1]
    args = [a for a in args if a != tier]
src, pid, checks = args[0], args[1], args[2:] or [args[1]]
wt = tempfile.mkdtemp(prefix=f'val_{pid}_', dir='/tmp')
os.rmdir(wt)
res = {'property': pid, 'checks': {}}
try:
    subprocess.run(['git', '-C', '/repo', 'worktree', 'add', '-q', '--detach', wt, 'HEAD'], check=True)
    r = subprocess.run(['git', '-C', wt, 'apply', os.path.join(src, 'patch.diff')], capture_output=True, text=True)
    if r.returncode:
        print('PATCH DOES NOT APPLY:', r.stderr[:400]); sys.exit(3)
    t = subprocess.run(['/venv/bin/python', '-m', 'pytest', '-q', '-p', 'no:cacheprovider', '--continue-on-collection-errors'],
                       cwd=wt, capture_output=True, text=True)
    res['tests'] = t.stdout.strip().split('\n')[-1]
    demo = None
    for cand in ('demo.py', 'demo.sh'):
        if os.path.exists(os.path.join(src, cand)):
            demo = cand
    def run_demo(repo):
        cmd = ['/venv/bin/python', os.path.join(src, demo), repo] if demo.endswith('.py') else ['sh', os.path.join(src, demo), repo]
        return subprocess.run(cmd, cwd=src, capture_output=True, text=True, timeout=900)
    if demo:
        a = run_demo('/repo'); b = run_demo(wt)
        res['demo_clean_rc'] = a.returncode; res['demo_patched_rc'] = b.returncode
        res['demo_patched_tail'] = (b.stdout + b.stderr).strip().split('\n')[-3:]
        if a.returncode != 0:
            res['demo_clean_tail'] = (a.stdout + a.stderr).strip().split('\n')[-3:]
    for c in checks:
        evd = tempfile.mkdtemp(prefix='ev_')
        env = dict(os.environ, VERIF_REPO=wt, VERIF_EVIDENCE_DIR=evd, VERIF_SEED=os.environ.get('VERIF_SEED', '1'))
        try:
            r = subprocess.run(['/venv/bin/python', '/verif/run_check.py', c, '--tier', tier], env=env, capture_output=True, text=True, timeout=3000)
            keys = [l.strip() for l in r.stdout.split('\n') if 'finding key' in l]
            res['checks'][c] = {'rc': r.returncode, 'verdict': {0: 'MISSED', 1: 'CAUGHT'}.get(r.returncode, 'ERROR'), 'keys': keys[:4],
                                'tail': r.stdout.strip().split('\n')[-1][:200]}
            if r.returncode == 2:
                res['checks'][c]['stderr'] = r.stderr[-800:]
        finally:
            shutil.rmtree(evd, ignore_errors=True)
    print(json.dumps(res, indent=1, ensure_ascii=False))
finally:
    subprocess.run(['git', '-C', '/repo', 'worktree', 'remove', '--force', wt], capture_output=True)
    shutil.rmtree(wt, ignore_errors=True)
