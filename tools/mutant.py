#!/usr/bin/env python3
"""Sensitivity helper (development only): copy /repo's working tree to a scratch dir, apply one
textual mutation, run a check against the copy (VERIF_REPO), report whether it went red, delete the copy.

usage: tools/mutant.py <ID> <file> <old> <new> [--count N] [--tier quick]
The evidence/replay files written by such runs are NOT evidence; callers re-run the check on /repo afterwards.
"""
import argparse, os, shutil, subprocess, sys, tempfile
ap = argparse.ArgumentParser()
ap.add_argument('prop'); ap.add_argument('file'); ap.add_argument('old'); ap.add_argument('new')
ap.add_argument('--tier', default='quick'); ap.add_argument('--nth', type=int, default=0)
ap.add_argument('--seed', default='1')
a = ap.parse_args()
d = tempfile.mkdtemp(prefix='mut_', dir='/tmp')
try:
    dst = os.path.join(d, 'repo')
    shutil.copytree('/repo', dst, ignore=shutil.ignore_patterns('.git'))
    p = os.path.join(dst, a.file)
    s = open(p).read()
    old = a.old.encode().decode('unicode_escape') if '\\n' in a.old else a.old
    new = a.new.encode().decode('unicode_escape') if '\\n' in a.new else a.new
    parts = s.split(old)
    if len(parts) < 2 + a.nth:
        print('MUTANT-ERROR: pattern not found', repr(old)); sys.exit(3)
    s2 = old.join(parts[:a.nth + 1]) + new + old.join(parts[a.nth + 1:])
    open(p, 'w').write(s2)
    env = dict(os.environ, VERIF_REPO=dst, VERIF_SEED=a.seed, VERIF_EVIDENCE_DIR=os.path.join(d, 'ev'))
    r = subprocess.run(['/venv/bin/python', '/verif/run_check.py', a.prop, '--tier', a.tier], env=env,
                       capture_output=True, text=True, timeout=1500)
    tail = '\n'.join(r.stdout.strip().split('\n')[-6:])
    print(f'[{a.prop}] {a.file}: {a.old!r} -> {a.new!r}: exit {r.returncode}  ' + ('DETECTED' if r.returncode == 1 else 'MISSED' if r.returncode == 0 else 'ERROR'))
    print(tail)
    if r.returncode == 2: print(r.stderr[-1500:])
finally:
    shutil.rmtree(d, ignore_errors=True)
