#!/bin/sh
# usage: tools/run_all.sh <tier> <seed> [ids...]   — runs every check, prints one summary line each
tier=${1:-quick}; seed=${2:-1}; shift 2 2>/dev/null
ids="$@"
[ -z "$ids" ] && ids="C01 C02 C03 C04 C05 C06 C07 C08 C09 C10 C11 C12 C13 C14 C15 C16 C17 C18 C19 C20"
cd "$(dirname "$0")/.."
for id in $ids; do
  start=$(date +%s)
  out=$(VERIF_SEED=$seed PYTHONHASHSEED=${PHS:-0} timeout 7200 /venv/bin/python ./run_check.py $id --tier $tier 2>&1)
  rc=$?
  end=$(date +%s)
  echo "$id seed=$seed tier=$tier rc=$rc $((end-start))s :: $(echo "$out" | tail -1)"
  if [ $rc -ne 0 ]; then echo "$out" | grep -v "^KNOWN" | tail -8; fi
done
