#!/usr/bin/env python3
"""Re-run the exposed quick checks against every archived behaviour-preserving / property-preserving change
(development helper).  usage: tools/regress_benign.py [-j N]
seeded/benign/<area>/ and seeded/benign2/<area>/: fresh worktree of /repo HEAD outside /repo and /verif, git apply
patch.diff, run the area's checks with VERIF_REPO=<worktree>; every run must exit 0.  Exits 1 on any alarm."""
import concurrent.futures as cf, os, shutil, subprocess, sys, tempfile
ROOT = os.path.dirname(os.path.dirname(os.path.abspath(__file__)))
CHECKS = {
    'benign/cat': 'C05 C06 C13 C03 C04 C14', 'benign/grammar': 'C03 C04 C14 C12 C01 C19',
    'benign/parser': 'C01 C02 C09 C10 C11 C12 C16 C17', 'benign/printersA': 'C07 C08 C18 C19 C20',
    'benign/printersB': 'C07 C15 C18 C19 C12', 'benign/readers': 'C08 C12 C15 C20',
    'benign/semantics': 'C15 C17', 'benign/misc': 'C07 C08 C18 C12 C02',
    'benign2/core': 'C01 C02 C09 C10 C11 C12 C16', 'benign2/glue': 'C01 C02 C09 C11 C12 C16 C17',
    'benign2/cat': 'C03 C04 C05 C06 C13 C14 C17', 'benign2/grammar': 'C01 C02 C03 C04 C10 C12 C14 C19',
    'benign2/text-printers': 'C07 C08 C18 C19 C20', 'benign2/struct-printers': 'C07 C12 C15 C18 C19',
    'benign2/readers': 'C07 C08 C12 C15 C20', 'benign2/misc': 'C02 C07 C08 C12 C17 C18 C19',
}
args = sys.argv[1:]
jobs = 4
if '-j' in args:
    i = args.index('-j'); jobs = int(args[i + 1]); del args[i:i + 2]


def one(item):
    d, checks = item
    patch = os.path.join(ROOT, 'seeded', d, 'patch.diff')
    if not os.path.exists(patch):
        return [(d, '-', 'NO-PATCH', '')]
    wt = tempfile.mkdtemp(prefix='rb_', dir='/tmp'); os.rmdir(wt)
    out = []
    try:
        subprocess.run(['git', '-C', '/repo', 'worktree', 'add', '-q', '--detach', wt, 'HEAD'], check=True, capture_output=True)
        r = subprocess.run(['git', '-C', wt, 'apply', patch], capture_output=True, text=True)
        if r.returncode:
            return [(d, '-', 'PATCH-DOES-NOT-APPLY', r.stderr[:200])]
        for c in checks.split():
            evd = tempfile.mkdtemp(prefix='ev_rb_')
            env = dict(os.environ, VERIF_REPO=wt, VERIF_EVIDENCE_DIR=evd, VERIF_SEED=os.environ.get('VERIF_SEED', '1'))
            r = subprocess.run(['/venv/bin/python', os.path.join(ROOT, 'run_check.py'), c, '--tier', 'quick'], env=env,
                               capture_output=True, text=True, timeout=3000)
            keys = sorted({l.strip().split('finding key: ')[-1] for l in r.stdout.split('\n') if 'finding key' in l})
            out.append((d, c, {0: 'quiet'}.get(r.returncode, f'ALARM rc={r.returncode}'), ' '.join(keys[:3]) or r.stderr[-200:] if r.returncode else ''))
            shutil.rmtree(evd, ignore_errors=True)
        return out
    finally:
        subprocess.run(['git', '-C', '/repo', 'worktree', 'remove', '--force', wt], capture_output=True)
        shutil.rmtree(wt, ignore_errors=True)


bad = n = 0
with cf.ThreadPoolExecutor(jobs) as ex:
    for rows in ex.map(one, CHECKS.items()):
        for d, c, verdict, keys in rows:
            n += 1
            if verdict != 'quiet':
                bad += 1
            print(f'{d:24s} {c:4s} {verdict} {keys}', flush=True)
subprocess.run(['git', '-C', '/repo', 'worktree', 'prune'])
print(f'{n} check runs, {n - bad} quiet, {bad} alarms')
sys.exit(1 if bad else 0)
