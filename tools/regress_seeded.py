#!/usr/bin/env python3
"""Re-run the property's own quick check against every archived seeded change (development helper).

usage: tools/regress_seeded.py [-j N] [dir-name-prefix ...]
For each /verif/seeded/<ID>[-k]/patch.diff: fresh worktree of /repo HEAD outside /repo and /verif, git apply,
run_check.py <ID> --tier quick with VERIF_REPO=<worktree>; exit 1 of the check = caught.  Worktrees are removed.
Prints one line per change and a summary; exits 1 if any kept change is missed.
"""
import concurrent.futures as cf, os, shutil, subprocess, sys, tempfile
ROOT = os.path.dirname(os.path.dirname(os.path.abspath(__file__)))
args = sys.argv[1:]
jobs = 5
if '-j' in args:
    i = args.index('-j'); jobs = int(args[i + 1]); del args[i:i + 2]
dirs = sorted(d for d in os.listdir(os.path.join(ROOT, 'seeded'))
              if d.startswith('C') and 'rejected' not in d and os.path.exists(os.path.join(ROOT, 'seeded', d, 'patch.diff'))
              and (not args or any(d.startswith(a) for a in args)))


def one(d):
    pid = d.split('-')[0]
    wt = tempfile.mkdtemp(prefix=f'rs_{d}_', dir='/tmp'); os.rmdir(wt)
    evd = tempfile.mkdtemp(prefix='ev_rs_')
    try:
        subprocess.run(['git', '-C', '/repo', 'worktree', 'add', '-q', '--detach', wt, 'HEAD'], check=True, capture_output=True)
        r = subprocess.run(['git', '-C', wt, 'apply', os.path.join(ROOT, 'seeded', d, 'patch.diff')], capture_output=True, text=True)
        if r.returncode:
            return d, 'PATCH-DOES-NOT-APPLY', ''
        env = dict(os.environ, VERIF_REPO=wt, VERIF_EVIDENCE_DIR=evd, VERIF_SEED=os.environ.get('VERIF_SEED', '1'))
        r = subprocess.run(['/venv/bin/python', os.path.join(ROOT, 'run_check.py'), pid, '--tier', 'quick'], env=env,
                           capture_output=True, text=True, timeout=3000)
        keys = sorted({l.strip().split('finding key: ')[-1] for l in r.stdout.split('\n') if 'finding key' in l})
        return d, {0: 'MISSED', 1: 'CAUGHT'}.get(r.returncode, f'ERROR rc={r.returncode}'), ' '.join(keys[:3])
    finally:
        subprocess.run(['git', '-C', '/repo', 'worktree', 'remove', '--force', wt], capture_output=True)
        shutil.rmtree(wt, ignore_errors=True); shutil.rmtree(evd, ignore_errors=True)


bad = 0
with cf.ThreadPoolExecutor(jobs) as ex:
    for d, verdict, keys in ex.map(one, dirs):
        print(f'{d:10s} {verdict:8s} {keys}', flush=True)
        bad += verdict != 'CAUGHT'
subprocess.run(['git', '-C', '/repo', 'worktree', 'prune'])
print(f'{len(dirs)} changes, {len(dirs) - bad} caught, {bad} not caught')
sys.exit(1 if bad else 0)
