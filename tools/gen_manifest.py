#!/usr/bin/env python3
"""Regenerates /verif/MANIFEST.json from the table below (keeps it schema-valid)."""
import json, os, sys
HERE = os.path.dirname(os.path.dirname(os.path.abspath(__file__)))

CHECKS = {}
def check(pid, technique, text, note, design):
    CHECKS[pid] = dict(technique=technique, text=text, note=note, design=design)

check('C13', 'property-based testing: Hypothesis-driven generated pairs + exhaustive bounded sweep against a structural model of category values',
      'Exploration: ==, hash, dict/set lookup, string comparison, ^ and clear_features are compared with an independent nested-tuple model on every ordered pair of values with <=1 slash (reduced alphabets, both feature systems; exhaustive) and on generated deep pairs, single-edit mutants, rebuilt copies and erase sets. Right level because the property is a set of algebraic laws over a value type with an executable reference model.',
      'Trusted: Hypothesis, CPython; the model reads categories by field access only. Values mixing the two feature systems inside one category are not generated.',
      'DESIGN.md section 7 C13')

ALL = ['C%02d' % i for i in range(1, 21)]
PENDING_REASON = 'check not built yet in this round (planned, see DESIGN.md section 7); not claimed until its command exists and is quiet on the unchanged tree'

def main():
    man = {
        'version': 1,
        'setup_cmd': './setup.sh',
        'hooks': {
            'guard': 'DEPCCG_VERIF',
            'enable': 'checks compile depccg/parsing.h from the working tree with -DHAVE_POP_HOOK semantics available and set DEPCCG_VERIF=1 in their own process; nothing is enabled when the variable is unset',
            'baseline_off_cmd': 'cd /repo && env -u DEPCCG_VERIF /venv/bin/python -m pytest -ra -q -p no:cacheprovider --continue-on-collection-errors',
            'source_commits': [],
            'add_only': True,
        },
        'engines': [
            {'name': 'run_check', 'path': 'run_check.py', 'serves_properties': sorted(CHECKS),
             'kind_free_text': 'Hypothesis 6.168 (seeded by VERIF_SEED, database=None) + deterministic sharded sweeps; replay without the library'},
        ],
        'checks': [],
        'notes': 'All checks: exit 0 held / 1 VIOLATION / 2 harness error. Known genuine defects are listed in known_findings.json.',
        'not_applicable': [],
    }
    hooks_file = os.path.join(HERE, 'tools', 'hook_commits.txt')
    if os.path.exists(hooks_file):
        man['hooks']['source_commits'] = [l.strip() for l in open(hooks_file) if l.strip()]
    for pid in ALL:
        if pid in CHECKS:
            c = CHECKS[pid]
            man['checks'].append({
                'property_id': pid,
                'quick_cmd': f'/venv/bin/python run_check.py {pid} --tier quick',
                'thorough_cmd': f'/venv/bin/python run_check.py {pid} --tier thorough',
                'evidence_file': f'evidence/{pid}.json',
                'replay_cmd_template': f'/venv/bin/python run_check.py {pid} --replay {{path}}',
                'engine': 'run_check',
                'level_claimed': {'category': 'exploration', 'text': c['text'], 'design_ref': c['design']},
                'level_note': c['note'],
                'technique': c['technique'],
            })
        else:
            man['not_applicable'].append({'property_id': pid, 'reason': PENDING_REASON})
    with open(os.path.join(HERE, 'MANIFEST.json'), 'w') as f:
        json.dump(man, f, indent=1)
    print('MANIFEST.json:', len(man['checks']), 'checks,', len(man['not_applicable']), 'not claimed')

if __name__ == '__main__':
    main()
