#!/usr/bin/env python3
"""Regenerates /verif/MANIFEST.json from the table below (keeps it schema-valid)."""
import json, os, sys
HERE = os.path.dirname(os.path.dirname(os.path.abspath(__file__)))

CHECKS = {}
def check(pid, technique, text, note, design):
    CHECKS[pid] = dict(technique=technique, text=text, note=note, design=design)

check('C13', 'property-based testing: Hypothesis-driven generated pairs + exhaustive bounded sweep against a structural model of category values; thorough tier adds an atheris (libFuzzer) coverage-guided campaign over the same byte-tape builder',
      'Exploration: ==, hash, dict/set lookup, string comparison, ^ and clear_features are compared with an independent nested-tuple model on every ordered pair of values with <=1 slash (reduced alphabets, both feature systems; exhaustive) and on generated deep pairs, single-edit mutants, rebuilt copies and erase sets. Right level because the property is a set of algebraic laws over a value type with an executable reference model.',
      'Trusted: Hypothesis, CPython; the model reads categories by field access only. Values mixing the two feature systems inside one category are not generated.',
      'DESIGN.md section 7 C13')

check('C05', 'property-based testing: value->text->value round trip and text-variant metamorphic relation (Hypothesis tapes + exhaustive bounded enumeration + sweep of every shipped category string), with an independent reader as second oracle; thorough tier adds an atheris (libFuzzer) coverage-guided campaign over the same byte-tape builder',
      'Exploration: every generated category value (both feature systems, slashes / \\ |, exhaustive up to 2 slashes over a reduced alphabet, random to depth 4) is printed and parsed back; texts with redundant round/angle brackets and blanks must read to the same value and re-print canonically; texts with one needed bracket pair removed must be rejected; all ~104k category string occurrences of the shipped model files and tests/cats*.txt round-trip. A round-trip/metamorphic oracle is exactly what the statement asks for.',
      'Trusted: the harness reader of the documented text grammar (cross-checked against Category.parse on every variant). Blanks are ASCII spaces between tokens.',
      'DESIGN.md section 7 C05')
check('C06', 'property-based testing against a reference model: statement-level matcher over category models vs Unification, Hypothesis-generated pattern instantiations with perturbations; thorough tier adds an atheris coverage-guided campaign',
      'Exploration: for every pattern pair the live grammars construct (recorded at run time) and bounded random pattern pairs, inputs are built by exact instantiation plus 0-2 perturbations or at random; the returned verdict is compared with a matcher transcribed from the statement, bindings are validated, post-failure reads and second calls must raise.',
      'Three-part features with variables on both sides in different slots are not fixed by the statement: counted, not judged. Pattern variables occur at most once per side.',
      'DESIGN.md section 7 C06')
check('C03', 'property-based testing against schema tables: exhaustive inventory-pair sweep + rule-closure pairs + bounded enumeration + Hypothesis schema instantiations with perturbations; soundness and completeness oracles',
      'Exploration: every result of en.apply_binary_rules on all ordered pairs of the shipped en+rebank inventories (exhaustive), closure and bounded-alphabet pairs and perturbed schema instantiations must satisfy the schema its label names (evaluated on nb-erased inputs, head left), and every schema whose premises hold with identical matched parts must yield exactly its result.',
      'Schema tables are the harness\'s reading of the statement; conjunction over feature-blind NP\\NP is neither required nor forbidden; bare-N/NP restriction enforced only when both composed-over categories are bare.',
      'DESIGN.md section 7 C03')
check('C04', 'property-based testing against schema tables: exhaustive targets.ja pair sweep + closure + bounded enumeration + Hypothesis instantiations; unary labels against the statement\'s shape table',
      'Exploration: every result of ja.apply_binary_rules over all ordered pairs of targets.ja (exhaustive), closure/bounded pairs and perturbed instantiations of the ten schemas and SSEQ must be licensed by the schema its symbol names (head right, crossed composition keeps the secondary slash; soundness only, the statement has no converse clause); every unary_rules.ja left-hand side and bounded synthetic inputs get the label their shape requires.',
      'Mixed-side three-part feature variables and unary shapes the statement does not name are counted as unspecified, not judged.',
      'DESIGN.md section 7 C04')

check('C14', 'property-based testing: differential execution across child interpreters with different PYTHONHASHSEED, repeat-call and metamorphic relations (seen-rule filter, nb erasure), Hypothesis-generated variable-conflict instantiations',
      'Exploration: each generated case (inventory pairs, schema instantiations where one feature variable meets several concrete values, random categories, random/shipped seen-rule sets, random unary tables) is applied twice in-process and once in each of 4 child interpreters per shard started under distinct PYTHONHASHSEED values (32-64 seeds overall); serialised results must be identical, arguments unchanged, no exception; the seen-rule result must be exactly the unrestricted result or empty according to membership of the erased key; unary results must be the configured targets in order.',
      'Only PYTHONHASHSEED is varied between processes. Japanese rule functions are fed only three-part-feature categories (plus *START*/*END*).',
      'DESIGN.md section 7 C14')

PARSER_NOTE = 'parsing.pyx is executed through the pyxlite translator (Cython semantics emulated for the ~25 constructs it uses, re-translated from the working tree on every run) and parsing.h is compiled with g++ behind a generated shim; exact comparison in the dyadic score class, 1e-4 relative tolerance otherwise.'
check('C01', 'property-based testing with a reference model: Hypothesis-generated sentences/grammars vs an exhaustive chart dynamic program; agenda pops observed through the guarded hook',
      'Exploration: for head-uniform synthetic tables and the real en/ja rule functions, the first returned parse must score exactly the optimum of an independent O(n^3) chart DP over the beam-admitted tags (placeholder iff infeasible), and the priorities of all popped agenda items (hook) must be non-increasing with a zero outside estimate on the goal.',
      PARSER_NOTE, 'DESIGN.md section 7 C01')
check('C02', 'property-based testing with a validity predicate over every returned tree (Hypothesis-generated sentences, synthetic tables of all head modes and real grammars, n-best 1-6) + fault injection-free sanitizer campaign (ASan/UBSan build of the shim in a child interpreter)',
      'Exploration: every tree returned by depccg.parsing.run must have one leaf per token in order carrying that token and an admitted supertag, every node licensed by the grammar callback, an allowed root and no unary root for n>1; anything else must be exactly the placeholder; out-of-range rule indices / missing cache keys / swallowed finalizer exceptions are surfaced by the shim as faults.',
      PARSER_NOTE, 'DESIGN.md section 7 C02')
check('C09', 'property-based testing: score recomputed from every returned tree by the statement\'s rule (differential oracle), Hypothesis-generated inputs',
      'Exploration: the score attached to each returned tree is compared with leaf tag scores + dependency scores along the tree\'s own head flags + root attachment - unary penalties; exact for dyadic scores; all head modes, n-best, real grammars.',
      PARSER_NOTE, 'DESIGN.md section 7 C09')
check('C10', 'property-based testing against full enumeration of derivations (reference model), Hypothesis-generated small sentences',
      'Exploration: for sentences small enough to enumerate every derivation with labels (cap 20000), the k-best list must have min(k, #derivations) pairwise different valid and correctly scored trees in non-increasing order whose scores are the k largest of the enumeration, the first equal to the 1-best answer.',
      PARSER_NOTE + ' Cases with ties at the pruning boundary or more than 20000 derivations are discarded (counted).', 'DESIGN.md section 7 C10')
check('C11', 'stateful property-based testing (Hypothesis RuleBasedStateMachine): batch vs alone metamorphic relation over generated call histories, incl. the multiprocessing branch, step budgets from the pop hook, malformed calls',
      'Exploration of histories: each machine owns a pool of sentences and one grammar; every step parses a drawn permutation/sub-sequence with drawn process count, chunk size, calling form and step budget through the unmodified depccg.parsing.run and compares each position with the memoised alone-result (trees, labels, flags, exact scores); alone results are tied to ground truth (over-length, budget P-1/P from the hook, chart feasibility); malformed calls must raise before any grammar callback; caller lists must stay unchanged.',
      PARSER_NOTE + ' OS scheduling of the worker processes is not controlled.', 'DESIGN.md section 7 C11')
check('C12', 'property-based testing: membership oracle of node labels in the grammar results that create the node\'s category (parser output) and print->read-back label recovery (readers)',
      'Exploration: (a) on grammars where a category pair has several differently labelled results (incl. the same category twice) every parser-built node must carry the label, symbol and head direction of a result that creates its category; (b) grammar-licensed derivations printed in auto/xml/jigg_xml/ptb and read back must carry a deriving rule\'s label on every derivable binary node.',
      PARSER_NOTE + ' Tree.of_nltk_tree needs NLTK and is not exercised.', 'DESIGN.md section 7 C12')
check('C16', 'property-based testing with adversarial generators around the numeric threshold and a two-sided reference (must/may admitted sets + chart DP)',
      'Exploration: tag-score rows are placed at log(beta) +/- {0.01, 0.5, 3} of the best tag and at ranks straddling pruning_size (also flattened rows, filter on/off) on grammars where some sentences are derivable only through an excluded tag; leaves must lie in may_admit, the score between the optima over must_admit and may_admit, and infeasibility over may_admit must give the placeholder.',
      PARSER_NOTE, 'DESIGN.md section 7 C16')

check('C07', 'property-based testing with independent decoders: each of 12 encoders\' output is decoded by a reader written against the format and compared with the generated derivation (differential oracle), Hypothesis-generated trees/tokens/batches',
      'Exploration: batches of grammar-licensed and arbitrary trees with awkward tokens are rendered in every format of the language (auto, auto_extended, xml, jigg_xml, conll, json (+decomposed categories), ptb, deriv, html, prolog, ja); an independent decoder per format (AUTO grammar, C&C XML, Jigg XML with offset/id audit, Prolog term reader with quoted-atom escapes, PTB s-expressions, the Japanese bank brace syntax, MathML nesting, the ASCII-art layout) must return the same words, shape, categories in the format\'s spelling, labels, head flags, token attributes, offsets and record numbering; conll heads are recomputed from the head flags.',
      'The decoders and the per-format spelling tables (Jigg [f=true], Prolog lower-case/named punctuation, LangPro functor names) are the harness\'s statement of the formats. PTB cannot carry round brackets in words (known finding of C20); the ccg2lambda formats need NLTK.',
      'DESIGN.md section 7 C07')
check('C08', 'property-based round-trip testing: to_string(auto) -> file -> read_auto, re-print, conll fragments (Hypothesis-generated trees and tokens)',
      'Exploration: licensed and arbitrary trees (either head direction per node, unary nodes) with tokens over printable non-blank text without backslashes are written as AUTO files of 1-3 sentences x 1-2 trees and read back: categories, shape, head flags, pos and escaped words must agree, the re-printed line must be identical and the conll last-column fragments must concatenate to the line.',
      'Rule labels of read-back trees are judged by C12, not here.', 'DESIGN.md section 7 C08')
check('C15', 'property-based round-trip testing + structural invariant audit: C&C XML / Jigg XML write -> read, id/offset audit of every Jigg sentence, ccg2lambda tree builder and token normaliser, capture of the XML handed to ccg2lambda',
      'Exploration: n-best batches with XML-representable tokens are written as C&C XML (en) and Jigg XML (ja) and read back (categories, shape, token attributes, labels of derivable nodes, numbering); every Jigg <sentence> is audited (unique span ids, resolving references, tiling offsets, one root per ccg); build_ccg_tree must be isomorphic to the derivation with Jigg category spelling and rule labels; normalize_tokens output must be punctuation-free and a pure function of the token; the XML the printer hands to ccg2lambda.parse (captured by substitution) must use the rule vocabulary of the shipped semantic templates.',
      'NLTK is absent: semantic composition itself is not run. Tokens that already start with an underscore are not judged.', 'DESIGN.md section 7 C15')
check('C17', 'property-based testing against a reference model of the mask + exhaustive sweep of the shipped model files',
      'Exploration: generated documents / category lists / dictionaries / score matrices: the output of apply_category_filters is compared cell by cell with a model computed on a copy (listed cells kept, unlisted cells of listed words set to the large negative value, other words and dependency scores untouched, tokens unchanged, both calling forms); exhaustive sweep: every category string occurrence of the shipped tables parses, round-trips and is hashable, every cat_dict.en category is in targets.en, and read_params on the three shipped configurations returns tables that find them.',
      'read_params runs through a functional stand-in for allennlp Params backed by a mini-jsonnet loader (cross-checked against a literal scan).', 'DESIGN.md section 7 C17')
check('C18', 'stateful property-based testing (Hypothesis RuleBasedStateMachine): render-live vs render-fresh-copy metamorphic relation over generated format sequences, snapshot invariant after every step',
      'Exploration of histories: each machine holds one batch of parse results; every step renders it in a drawn format (all to_string formats of the language plus the element-tree encoders) and requires the output to equal that of a freshly rebuilt copy and the structural snapshot of the live batch (categories, labels, flags, token dicts) to be unchanged.',
      'A rendering that raises is compared as an outcome; renderability itself is C19.', 'DESIGN.md section 7 C18')
check('C19', 'property-based testing: totality over the generated label space + metamorphic relation [A, FAILED, B] vs [A, B] per format',
      'Exploration: batches mixing derivations that cover every (label, symbol) the live rule functions return (shipped seen-rule pairs, shipped and synthetic unary tables; coverage measured in the evidence) with the placeholder obtained from a real failed parse are rendered in every format of the CLI choice lists (read from depccg.argparse at run time): no exception, and the records of the parsed sentences must not change when a failed sentence is added.',
      'The two ccg2lambda formats need NLTK and are not rendered.', 'DESIGN.md section 7 C19')
check('C20', 'property-based round-trip testing: ptb_of -> read_ptb, ja_of -> read_ccgbank (also with bank annotations added), prefix-truncation negative tests',
      'Exploration: English trees printed as PTB lines and Japanese trees printed in the bank format are read back (categories, shape, words, rule symbols for ja; unary and binary nodes, bracket tokens); the Japanese line is also read after the harness decorates its categories with {I1} / _none annotations; every generated proper prefix of a PTB line must be rejected.',
      'Words with round brackets cannot be carried by the PTB format (open known finding, excluded by construction and counted).', 'DESIGN.md section 7 C20')

ALL = ['C%02d' % i for i in range(1, 21)]
PENDING_REASON = 'check not built yet in this round (planned, see DESIGN.md section 7); not claimed until its command exists and is quiet on the unchanged tree'

def main():
    man = {
        'version': 1,
        'setup_cmd': './setup.sh',
        'hooks': {
            'guard': 'DEPCCG_VERIF',
            'enable': 'checks compile depccg/parsing.h from the working tree behind a generated shim; when the header declares parsing::verif_pop_hook the shim exports a setter, and a check that observes agenda pops installs a callback and sets DEPCCG_VERIF=1 in its own process for the duration of that parse only; with the variable unset (or no callback installed, as in any normal build) nothing happens',
            'baseline_off_cmd': 'cd /repo && env -u DEPCCG_VERIF /venv/bin/python -m pytest -ra -q -p no:cacheprovider --continue-on-collection-errors',
            'source_commits': [],
            'add_only': True,
        },
        'engines': [
            {'name': 'run_check', 'path': 'run_check.py', 'serves_properties': sorted(CHECKS),
             'kind_free_text': 'Hypothesis 6.168 (seeded by VERIF_SEED, database=None) + deterministic sharded sweeps; replay without the library'},
        ],
        'checks': [],
        'notes': 'All checks: exit 0 held / 1 VIOLATION / 2 harness error. Known genuine defects are listed in known_findings.json.',
        'not_applicable': [],
    }
    hooks_file = os.path.join(HERE, 'tools', 'hook_commits.txt')
    if os.path.exists(hooks_file):
        man['hooks']['source_commits'] = [l.strip() for l in open(hooks_file) if l.strip()]
    for pid in ALL:
        if pid in CHECKS:
            c = CHECKS[pid]
            man['checks'].append({
                'property_id': pid,
                'quick_cmd': f'/venv/bin/python run_check.py {pid} --tier quick',
                'thorough_cmd': f'/venv/bin/python run_check.py {pid} --tier thorough',
                'evidence_file': f'evidence/{pid}.json',
                'replay_cmd_template': f'/venv/bin/python run_check.py {pid} --replay {{path}}',
                'engine': 'run_check',
                'level_claimed': {'category': 'exploration', 'text': c['text'], 'design_ref': c['design']},
                'level_note': c['note'],
                'technique': c['technique'],
            })
        else:
            man['not_applicable'].append({'property_id': pid, 'reason': PENDING_REASON})
    with open(os.path.join(HERE, 'MANIFEST.json'), 'w') as f:
        json.dump(man, f, indent=1)
    print('MANIFEST.json:', len(man['checks']), 'checks,', len(man['not_applicable']), 'not claimed')

if __name__ == '__main__':
    main()
