#!/usr/bin/env python3
"""prints a markdown table of what the last run of every check covered (from evidence/*.json)"""
import json, glob, os, sys
d = sys.argv[1] if len(sys.argv) > 1 else os.path.join(os.path.dirname(os.path.dirname(os.path.abspath(__file__))), 'evidence')
print('| check | tier | seed | cases | distinct non-trivial | known-finding hits | violations | wall s |')
print('|---|---|---|---|---|---|---|---|')
for f in sorted(glob.glob(os.path.join(d, 'C*.json'))):
    e = json.load(open(f)); c = e['coverage']
    print(f"| {e['property_id']} | {e['tier']} | {e['seed']} | {c['evaluations']} | {c['distinct_nontrivial']} | "
          f"{sum(c.get('known_finding_exclusions', {}).values())} | {e.get('violations', 0)} | {e['wall_s']} |")
