#!/usr/bin/env python3
"""Writes /verif/known_findings.json from the table below (kept here so that the file stays consistent).

status=open : genuine defect recorded, not repaired; the check counts occurrences, excludes them by construction,
              prints one KNOWN-FINDING line and exits 0.  Any other failure is still a VIOLATION.
status=fixed: repaired by the named 'fix:' commit in /repo; the entry suppresses nothing.
The file is read-only at run time.
"""
import json
import os

HERE = os.path.dirname(os.path.dirname(os.path.abspath(__file__)))
F = []


def fixed(prop, commit, key, what_failed, where, example, also=()):
    F.append({'property': prop, 'key': key, 'status': 'fixed', 'commit': commit,
              'line': f'fixed: property={prop} {commit} {what_failed}', 'what': where, 'example': example,
              'also_seen_as': list(also)})


def open_(prop, key, what_fails, where, example, why_not_repaired):
    F.append({'property': prop, 'key': key, 'status': 'open',
              'line': f'KNOWN-FINDING: property={prop} {what_fails}', 'what': where, 'example': example,
              'why_not_repaired': why_not_repaired})


fixed('C03', '7dba1bb', 'C03/unsound/gbx<B/inputs are not (B/C)|D and a backward functor A\\B',
      'generalized backward composition (gbx <B) matched its right-hand functor with the pattern a/b: it fired on forward functors and never on A\\B',
      'depccg/grammar/en.py generalized_backward_composition',
      {'x': '((S[ng]\\NP)/NP)/(S[adj]\\NP)', 'y': '((S[adj]\\NP)\\(S[adj]\\NP))/(S[ng]\\NP)',
       'wrong_result': '(((S[adj]\\NP)\\(S[adj]\\NP))/NP)/(S[adj]\\NP) labelled gbx'}, ['C03/incomplete/gbx<B'])
fixed('C04', '5cefe1f', 'C04/unsound/>Bx1/crossed composition must keep the slash of the secondary functor (\\)',
      '>Bx1 (forward crossed composition) built A/C instead of A\\C for non-modifier functors',
      'depccg/grammar/ja.py generalized_forward_composition1',
      {'x': 'S[mod=nm,form=base,fin=f]|NP[case=nc,mod=X2,fin=f]', 'y': 'NP[case=nc,mod=nm,fin=f]\\NP[case=nc,mod=X2,fin=f]',
       'wrong_result': 'S[mod=nm,form=base,fin=f]/NP[case=nc,mod=nm,fin=f]'}, ['C04/incomplete/>Bx1'])
fixed('C04', 'e7a999d', 'C04/unary-label/ADNext',
      'unary labels ADNext / ADV1 / ADV2 were never produced (a bound method was compared with a string)',
      'depccg/grammar/ja.py _unary_rule_symbol',
      {'x': 'S[mod=adn,form=imp,fin=f]', 'wrong_label': 'ADNint'}, ['C04/unary-label/ADV1', 'C04/unary-label/ADV2'])
fixed('C14', '3eedac3', 'C14/process-dependent',
      'the instantiation of a feature variable bound to several values depended on PYTHONHASHSEED (iteration over a set in Unification)',
      'depccg/unification.py __call__',
      {'lang': 'en', 'x': 'S[dcl]/S[b]', 'y': 'S[X]\\(S[X]/S[X])', 'result_hashseed_0': 'S[b]', 'result_hashseed_2': 'S[dcl]'})
fixed('C01', 'b2bd6c2', 'C01/suboptimal',
      'the binary outside estimate subtracted the head\'s best attachment score: sub-optimal first parses and rising agenda priorities',
      'depccg/parsing.h binary pushes (both loops)', 'corpus/C01/suboptimal.json, corpus/C01/pop-priority-rises.json',
      ['C01/pop-priority-rises', 'C10/topk-scores'])
fixed('C16', '3930f73', 'C16/leaf-not-admitted',
      'the beta threshold was beta * best LOG-probability (never positive), so the beta filter never excluded a tag',
      'depccg/parsing.h threshold', 'corpus/C01/parsed-but-no-derivation.json',
      ['C01/parsed-but-no-derivation', 'C01/score-above-optimum', 'C16/score-above-optimum', 'C16/failed-but-parse-exists'])
fixed('C09', '0322a0c', 'C09/score-mismatch',
      'parser trees were always left-headed (Tree.make_binary called without the rule\'s head flag), so the score recomputed from the tree differed for right-headed rules',
      'depccg/parsing.pyx retrieve_tree', 'corpus/C09/score-mismatch.json', ['C12/binary-head-direction'])
fixed('C12', 'c03040e', 'C12/unary-label',
      'unary chart items were pushed with rule index 0: with several unary results every unary node got the first result\'s label',
      'depccg/parsing.h unary push', 'a unary table with two targets and distinct labels')
fixed('C20', '334b1b0', 'C20/ptb/binary-node/TypeError',
      'read_ptb raised TypeError on every binary node (rule tuple passed as op_string, op_symbol missing)',
      'depccg/tools/reader.py _parse_ptb', 'corpus/C20/ptb-binary-node-TypeError.json')
fixed('C20', '087eebf', 'C20/ja/reader-raises/plain/RuntimeError',
      'the Japanese bank reader chopped the last character of leaf categories that carry no _ annotation',
      'depccg/tools/ja/reader.py parse_leaf', '{S[mod=nm,form=base,fin=f] a/a/_/_}')
fixed('C20', 'b868a95', 'C20/ja/tree-differs/plain',
      'the Japanese bank reader kept the leading { in rule symbols ({< instead of <)',
      'depccg/tools/ja/reader.py parse_tree', '{< NP[...] {...} {...}}',
      ['C20/ja/tree-differs/leaf_none', 'C20/ja/tree-differs/index', 'C20/ja/tree-differs/both'])
fixed('C20', '6e0a061', 'C20/ja/tree-differs/plain',
      'the Japanese bank reader did not know the OTHER unary symbol and read such a node as a leaf',
      'depccg/tools/ja/reader.py combinators', '{OTHER S[...] {S[...] a/a/_/_}}')
fixed('C12', '1fe8277', 'C12/reader/xml/label',
      'guess_combinator_by_triplet evaluated the matching rule without returning it: every reader-built binary node was labelled unk',
      'depccg/grammar/__init__.py', 'any derivable binary node read by read_auto / read_xml / read_jigg_xml / read_ptb',
      ['C12/reader/auto/label', 'C12/reader/jigg_xml/label', 'C12/reader/ptb/label', 'C15/xml/label'])
fixed('C15', 'c1fffcf', 'C15/bridge/rule-vocabulary',
      'for Japanese the Jigg XML handed to ccg2lambda carried op_string (ba) although the semantic templates key on symbols (<)',
      'depccg/printer/__init__.py ccg2lambda / jigg_xml_ccg2lambda branches',
      {'lang': 'ja', 'format': 'ccg2lambda', 'rule_attr': 'ba', 'templates_key': '<'})
fixed('C18', 'eed689c', 'C18/mutates/jigg_xml',
      'to_jigg_xml renamed word/lemma to surf/base inside the caller\'s Token objects; the next auto / ptb / deriv / conll / html / prolog rendering raised KeyError(word)',
      'depccg/printer/jigg_xml.py to_jigg_xml', {'formats': ['jigg_xml', 'ptb']},
      ['C18/mutates/direct:to_jigg_xml', 'C18/rerender-raises/*'])
fixed('C19', '13f8caa', 'C19/prolog/ja/raises-on-derivation/KeyError@prolog.py:traverse_tree',
      'Prolog (ja) had no functor for the unary symbols ADV2 and OTHER: KeyError',
      'depccg/printer/prolog.py _ja_combinators', 'a derivation with a unary node labelled ADV2 or OTHER')
fixed('C19', 'ac68146', 'C19/prolog/ja/raises-on-placeholder/AttributeError@prolog.py:traverse_cat',
      'Prolog (ja) called .items() on featureless atoms: the failure placeholder (NP) made the whole batch unprintable',
      'depccg/printer/prolog.py to_prolog_ja.traverse_cat', '[parsed sentence, FAILED] in format prolog, language ja')
fixed('C19', 'fe78580', 'C19/prolog/en/raises-on-placeholder/KeyError@types.py:__getattr__',
      'Prolog (en) read token.lemma/pos/chunk/entity unconditionally: KeyError on the failure placeholder',
      'depccg/printer/prolog.py _prolog_string', '[FAILED] in format prolog, language en')
fixed('C07', 'fb66376', 'C07/html/en/differs/category',
      'MathML output dropped punctuation categories (, . ; :) and the | slash',
      'depccg/printer/html.py _mathml_cat', {'category': ',', 'rendered': ''})
fixed('C07', '071a3e0', 'C07/prolog/en/undecodable',
      'Prolog output did not escape backslashes: a value ending in a backslash produced an unterminated quoted atom',
      'depccg/printer/prolog.py _escape_prolog', {'inflectionType': '\\'}, ['C07/prolog/ja/undecodable'])
fixed('C07', '1441249', 'C07/prolog/en/undecodable',
      'English Prolog output wrote pos, chunk and entity unescaped: a quote in them broke the term',
      'depccg/printer/prolog.py _prolog_string', {'entity': "'"})
fixed('C07', '77f984d', 'C07/json_full/en/encoder-raises/AttributeError',
      'json_of(tree, full=True) raised AttributeError (node.features does not exist)',
      'depccg/printer/my_json.py _json_of_category', 'any tree', ['C07/json_full/ja/encoder-raises/AttributeError'])
fixed('C07', 'ae9e0eb', 'C07/html/ja/differs/sentence-words',
      'HTML output wrote the sentence line unescaped: a token such as &#0 or <s> became a character reference / markup',
      'depccg/printer/html.py to_mathml', {'word': '&#0'})

fixed('C20', '2f8a9c5', 'C20/ja/reader-raises/plain/ValueError',
      "the Japanese bank printer rewrote the words -LCB- / -RCB- to '{' / '}', the characters that delimit the format's "
      "nodes: the printed line could not be read back",
      'depccg/printer/ja.py ja_of', {'word': '-LCB-', 'line': '{NP[case=nc,mod=nm,fin=f] {/{/_/_}'},
      ['C20/ja/reader-raises/index/ValueError', 'C20/ja/reader-raises/both/ValueError', 'C07/ja/ja/differs/word'])

open_('C20', 'C20/ptb/round-bracket-at-word-edge',
      "PTB output cannot carry a word that starts with '(' or ends with ')' (e.g. the tokens '(' and ')'): ptb_of prints it "
      "unescaped, read_ptb takes the bracket as structure, and a word containing a round bracket can make a proper prefix "
      "of a line look complete",
      'depccg/printer/ptb.py ptb_of, depccg/tools/reader.py _parse_ptb',
      {'word': ')', 'line': '(ROOT (S )))', 'error': 'IndexError / the word loses its bracket'},
      'a repair has to choose an escaping convention for the format (e.g. -LRB-/-RRB-), which changes the printed words; '
      'that is a format decision rather than a small patch')


def main():
    doc = {'_comment': __doc__.strip(), 'findings': F}
    with open(os.path.join(HERE, 'known_findings.json'), 'w') as f:
        json.dump(doc, f, indent=1, ensure_ascii=False)
    print(len(F), 'findings:', sum(1 for e in F if e['status'] == 'open'), 'open')


if __name__ == '__main__':
    main()
