import sys, random; sys.path.insert(0,'/tmp/explore'); sys.path.insert(0,'/tmp/explore/px'); sys.path.insert(0,'/repo')
import stubs; stubs.install()
import warnings; warnings.simplefilter('ignore')
import pyxlite, numpy as np
mod,rt=pyxlite.build('/repo','/tmp/explore/px/build')
import depccg.parsing
from depccg.cat import Category
from depccg.types import Token, ScoringResult, CombinatorResult
C=Category.parse
ALL=[C(c) for c in ['A','B','D','E','A/B','B\\A','(A/B)/D','E\\E','S','S/S']]
class Gram:
    def __init__(self,rng,headleft):
        self.b={}; self.u={}
        for x in ALL:
            for y in ALL:
                if rng.random()<0.35:
                    self.b[(x,y)]=[CombinatorResult(rng.choice(ALL),f'l{i}',f's{i}',headleft) for i in range(rng.randint(1,3))]
        for i,x in enumerate(ALL[:-1]):
            if rng.random()<0.3: self.u[x]=[CombinatorResult(rng.choice(ALL[i+1:]),'u0','U0',True)]
    def binary(self,x,y): return self.b.get((x,y),[])
    def unary(self,x): return self.u.get(x,[])
def snap(t):
    if t.is_leaf: return ('L',str(t.cat),t.token['word'])
    return ('T',str(t.cat),t.op_string,t.op_symbol,t.head_is_left,tuple(snap(c) for c in t.children))
rng=random.Random(int(sys.argv[1])); bad=0; tot=0; fails=0
for trial in range(int(sys.argv[2])):
    g=Gram(rng,rng.random()<0.5); T=rng.randint(2,5); cats=ALL[:T]; roots=rng.sample(ALL,3)
    sents=[]
    for k in range(rng.randint(3,6)):
        n=rng.randint(1,5); ties=rng.random()<0.6
        tag=np.array([[(-1.0 if ties else -rng.randint(0,16)/8) for _ in range(T)] for _ in range(n)],dtype=np.float32)
        dep=np.array([[(-1.0 if ties else -rng.randint(0,16)/8) for _ in range(n+1)] for _ in range(n)],dtype=np.float32)
        sents.append(([Token.of_word(f'w{k}_{i}') for i in range(n)], ScoringResult(tag,dep)))
    kw=dict(unary_penalty=0.125,use_beta=False,nbest=rng.choice([1,1,3]))
    alone=[depccg.parsing.run([d],[s],cats,roots,g.binary,g.unary,**kw)[0] for d,s in sents]
    perm=list(range(len(sents))); rng.shuffle(perm)
    batch=depccg.parsing.run([sents[i][0] for i in perm],[sents[i][1] for i in perm],cats,roots,g.binary,g.unary,**kw)
    for pos,i in enumerate(perm):
        tot+=1
        a=[(snap(t.tree),t.score) for t in alone[i]]; b=[(snap(t.tree),t.score) for t in batch[pos]]
        if a[0][1]==float('-inf'): fails+=1
        if a!=b:
            bad+=1
            if bad<3: print('DIFF',a,b)
print('sentences',tot,'failed parses',fails,'history-dependent',bad)
