import sys, os, re, collections, html as htmllib
exec(open('h2.py').read().split("def snap(t):")[0])
from lxml import etree
from depccg.printer.deriv import deriv_of
from depccg.printer.html import to_mathml
from depccg.printer.prolog import to_prolog_en
LABELS=[('fa','>'),('ba','<'),('fc','>B'),('bx','<B'),('gfc','>B'),('gbx','<B'),('conj','<Φ>'),('lp','<lp>'),('rp','<rp>'),('lp','<*>')]
def ltrees():
    leaf=st.builds(lambda t,c: Tree.make_terminal(t,to_cat(c)), token(), cats('en'))
    def ext(ch):
        return st.one_of(st.builds(lambda c,k,l: Tree.make_unary(to_cat(c),k,l,'<un>'), cats('en'), ch, st.sampled_from(['lex','tr'])),
                         st.builds(lambda c,l,r,h,lab: Tree.make_binary(to_cat(c),l,r,lab[0],lab[1],h), cats('en'), ch, ch, st.booleans(), st.sampled_from(LABELS)))
    return st.recursive(leaf, ext, max_leaves=6)
def ref(t, sym):
    if t.is_leaf: return ('L',str(t.cat),t.token['word'])
    return ('T',str(t.cat), t.op_symbol if sym else t.op_string, tuple(ref(c,sym) for c in t.children))
# ---- deriv decoder
def dec_deriv(text):
    lines=text.split('\n')
    cats_=lines[0].split(); words=[(m.start(),m.group()) for m in re.finditer(r'\S+',lines[1])]
    assert len(cats_)==len(words)
    stack=[(pos,pos+len(w),('L',c,w)) for (pos,w),c in zip(words,cats_)]   # leaves in order, by word start offset
    pending=list(stack); done=[]
    i=2
    nodes=[]  # completed subtrees with extents
    leafq=list(stack)
    work=[]
    while i<len(lines) and lines[i]!='':
        m=re.match(r'^( *)(-+)(.*)$',lines[i]); l=len(m.group(1)); r=l+len(m.group(2)); sym=m.group(3)
        cat=lines[i+1].strip(); i+=2
        # bring in leaves whose word starts inside [l,r) and not yet used
        while leafq and leafq[0][0]<r:
            work.append(leafq.pop(0))
        ch=[]
        while work and work[-1][0]>=l: ch.insert(0,work.pop())
        assert 1<=len(ch)<=2, (len(ch),lines[i-2])
        work.append((ch[0][0],r,('T',cat,sym,tuple(c[2] for c in ch))))
    work+=leafq
    assert len(work)==1, len(work)
    return work[0][2]
# ---- html decoder
def dec_html(doc):
    out=[]
    for m in re.finditer(r'<math xmlns="http://www.w3.org/1998/Math/MathML">(.*?)</math>',doc,re.S):
        root=etree.fromstring('<math>'+m.group(1)+'</math>')
        def cat_of(mstyle):
            s=''
            for el in mstyle:
                if el.tag=='mi': s+=el.text or ''
                elif el.tag=='msub': s+=(el[0].text or '')+(el[1][0].text or '')
            return s
        def rec(mrow):
            mfrac=mrow[0]; tail=mrow[1]
            if mfrac[0].tag=='mtext': return ('L',cat_of(mfrac[1]),mfrac[0].text or '')
            return ('T',cat_of(mfrac[1]),tail.text,tuple(rec(c) for c in mfrac[0]))
        out.append(rec(root[0]))
    return out
cnt=collections.Counter(); fails=collections.Counter(); ex={}
@seed(int(os.environ.get('VERIF_SEED','1')))
@settings(max_examples=int(sys.argv[1]), database=None, deadline=None, suppress_health_check=list(HealthCheck))
@given(ltrees())
def test(t):
    cnt['n']+=1
    try:
        d=dec_deriv(deriv_of(t))
        if d!=ref(t,True): k=('deriv differs',); fails[k]+=1; ex.setdefault(k,(deriv_of(t),d,ref(t,True)))
    except Exception as e:
        k=('deriv EXC',type(e).__name__,str(e)[:50]); fails[k]+=1; ex.setdefault(k,deriv_of(t))
    try:
        h=dec_html(to_mathml([[ScoredTree(t,-1.0)]]))
        r=ref(t,False)
        if h!=[r]:
            def cats_in(x): return [x[1]]+([c for ch in x[3] for c in cats_in(ch)] if x[0]=='T' else [])
            lost=[b for a,b in zip(cats_in(h[0]),cats_in(r)) if a!=b] if len(cats_in(h[0]))==len(cats_in(r)) else ['shape']
            kind='punct/bar category lost' if all(re.search(r'[,.;:|]',x) for x in lost) else 'other'
            k=('html differs',kind); fails[k]+=1; ex.setdefault(k,(lost[:3],))
    except Exception as e:
        k=('html EXC',type(e).__name__,str(e)[:50]); fails[k]+=1; ex.setdefault(k,'')
test(); print(cnt)
for k,v in fails.items(): print(v,k,str(ex[k])[:700])
