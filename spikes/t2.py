import sys; sys.path.insert(0,'/tmp/explore'); sys.path.insert(0,'/repo')
import stubs; stubs.install()
import tempfile, os, traceback
from depccg.cat import Category
from depccg.tree import Tree, ScoredTree
from depccg.types import Token
from depccg.printer import to_string
from depccg.lang import set_global_language_to
from depccg.grammar import en, ja
C=Category.parse
def leaf(w,c): return Tree.make_terminal(Token.of_word(w), C(c))
def binr(l,r,lang=en):
    res=lang.apply_binary_rules(l.cat,r.cat)
    assert res, (l.cat,r.cat)
    x=res[0]
    return Tree.make_binary(x.cat,l,r,x.op_string,x.op_symbol,x.head_is_left)
t = binr(binr(leaf('this','NP'), binr(leaf('is','(S[dcl]\\NP)/NP'), binr(leaf('a','NP[nb]/N'), binr(leaf('te(st','N/N'), leaf('<s>','N'))))), leaf('.','.'))
nb=[[ScoredTree(t,-0.5)]]
for f in ['auto','auto_extended','deriv','xml','conll','html','prolog','jigg_xml','ptb','json','ja']:
    try:
        s=to_string(nb,format=f)
        print('=====',f); print(s[:1500])
    except Exception as e:
        print('=====',f,'EXC',repr(e)); traceback.print_exc(limit=3)
