import sys; sys.path.insert(0,'/tmp/explore'); sys.path.insert(0,'/tmp/explore/px'); sys.path.insert(0,'/repo')
import stubs; stubs.install()
import pyxlite, numpy as np, time
mod,rt=pyxlite.build('/repo','/tmp/explore/px/build')
import depccg.parsing
from depccg.cat import Category
from depccg.types import Token, ScoringResult
from depccg.grammar import en
from depccg.printer import to_string
from functools import partial
C=Category.parse
cats=[C(c) for c in ['NP','(S[dcl]\\NP)/NP','NP[nb]/N','N/N','N','.','S[dcl]\\NP','conj']]
words='this is a test sentence .'.split()
gold=[0,1,2,3,4,5]
def mk(words,gold,noise=0):
    n=len(words)
    tag=np.full((n,len(cats)),-5.0,dtype=np.float32)
    for i,g in enumerate(gold): tag[i,g]=-0.125
    dep=np.full((n,n+1),-3.0,dtype=np.float32)
    return [Token.of_word(w) for w in words], ScoringResult(tag,dep)
unary={C('N'):[C('NP')]}
bf=en.apply_binary_rules; uf=partial(en.apply_unary_rules,unary_rules=unary)
roots=[C('S[dcl]'),C('NP')]
doc,sc=mk(words,gold)
res=depccg.parsing.run(doc,sc,cats,roots,bf,uf,nbest=3)
print(to_string(res,format='auto'))
# batch + multiprocess
docs=[];scs=[]
for k in range(7):
    d,s=mk(words,gold); docs.append(d); scs.append(s)
d,s=mk(['is','is'],[1,1]); docs.insert(3,d); scs.insert(3,s)
t=time.time()
res2=depccg.parsing.run(docs,scs,cats,roots,bf,uf,processes=3,max_chunk_size=2)
print('mp time',time.time()-t,[ (len(r), r[0].score, r[0].tree.word) for r in res2])
# error propagation from callback
def badbf(x,y): raise ValueError('boom')
try: depccg.parsing.run(doc,sc,cats,roots,badbf,uf)
except Exception as e: print('propagated:',type(e).__name__,e)
try: depccg.parsing.run(doc,ScoringResult(sc.tag_scores.astype(np.float64),sc.dep_scores),cats,roots,bf,uf)
except Exception as e: print('dtype:',type(e).__name__,e)
