import sys, random, os
lib=sys.argv[3]
src=open('drv.py').read().replace("libshim.so", lib).split("if __name__=='__main__':")[0]
exec(src)
HOOK=ctypes.CFUNCTYPE(None, ctypes.c_void_p)
pops=[]
def hook(p): pops.append((L.item_fin(p), L.item_in(p)+L.item_out(p), L.item_start(p), L.item_len(p), L.item_cat(p)))
h=HOOK(hook); L.set_pop_hook.argtypes=[HOOK]; L.set_pop_hook(h)
os.environ['DEPCCG_VERIF']='1'
rng=random.Random(int(sys.argv[1])); N=int(sys.argv[2]); bad=0; tot=0
for it in range(N):
    tag,dep,roots,binary,unary,hl,T,up=gen(rng)
    del pops[:]
    st,out=parse(tag,dep,roots,binary,unary,hl,T,up=up)
    fs=[p[1] for p in pops]; tot+=len(fs)
    if any(fs[i+1]>fs[i] for i in range(len(fs)-1)):
        bad+=1
        if bad<=2: print('NONMONO', fs[:12])
print(lib,'cases',N,'pops',tot,'nonmonotone cases',bad)
