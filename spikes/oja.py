import sys,re,collections; sys.path.insert(0,'/repo')
from depccg.cat import Category
from depccg.grammar import ja
from oen import M, blind, leaves, feats, F, is_mod, load
def isvar(f): return isinstance(f,tuple) and any(v.startswith('X') for k,v in f)
def compat3(a,b):
    """True / False / None(unspecified)"""
    if a==b: return True
    if not (isinstance(a,tuple) and isinstance(b,tuple)): return None
    if [k for k,_ in a]!=[k for k,_ in b]: return False
    dirs=set()
    for (k,va),(_,vb) in zip(a,b):
        if va==vb: continue
        xa,xb=va.startswith('X'),vb.startswith('X')
        if not xa and not xb: return False
        if xa and xb: dirs.add('both')   # two different variables
        elif xa: dirs.add('a')
        else: dirs.add('b')
    if dirs<= {'a'} or dirs<={'b'}: return True
    return None
def match(b1,b2):
    if blind(b1)!=blind(b2): return False
    rs=[compat3(p[2],q[2]) for p,q in zip(leaves(b1),leaves(b2))]
    if any(r is False for r in rs): return False
    if any(r is None for r in rs): return None
    return True
def derived(res,src,pool):
    if blind(res)!=blind(src): return False
    for r,s in zip(leaves(res),leaves(src)):
        if r[2]==s[2]: continue
        if isvar(s[2]) and r[2] in pool: continue
        return False
    return True
def spine(m, depth):
    """peel `depth` outer args: returns (core, [(slash,arg) outermost first])"""
    args=[]
    for _ in range(depth):
        if m[0]!='f': return None
        args.append((m[2],m[3])); m=m[1]
    return m,args
def rebuild(core,args):
    for s,a in reversed(args): core=('f',core,s,a)
    return core
ROOTS=[M(c) for c in ja._possible_root_categories]
def justify(x,y,res,sym):
    pool=feats(x)|feats(y)
    def chk(Bx,By):
        m=match(Bx,By)
        return m
    if sym=='>':
        if not (x[0]=='f' and x[2] in '/|'): return 'shape'
        m=chk(x[3],y)
        if m is None: return None
        if not m: return 'B !~ y'
        if is_mod(x): return None if res==y else 'mod'
        return None if derived(res,x[1],pool) else 'res'
    if sym=='<':
        if not (y[0]=='f' and y[2] in '\\|'): return 'shape'
        m=chk(y[3],x)
        if m is None: return None
        if not m: return 'B !~ x'
        if is_mod(y): return None if res==x else 'mod'
        return None if derived(res,y[1],pool) else 'res'
    if sym=='>B':
        if not (x[0]=='f' and x[2] in '/|' and y[0]=='f' and y[2] in '/|'): return 'shape'
        m=chk(x[3],y[1])
        if m is None: return None
        if not m: return 'B'
        if is_mod(x): return None if res==y else 'mod'
        return None if res[0]=='f' and res[2]=='/' and derived(res[1],x[1],pool) and derived(res[3],y[3],pool) else 'res'
    if sym.startswith('<B'):
        n=int(sym[2:])
        if not (y[0]=='f' and y[2] in '\\|'): return 'shape y'
        sp=spine(x,n-1)
        if sp is None: return 'shape x'
        core,args=sp
        if not (core[0]=='f' and core[2] in '\\|'): return 'shape core'
        m=chk(core[1],y[3])
        if m is None: return None
        if not m: return 'B'
        if is_mod(y): return None if res==x else 'mod'
        rs=spine(res,n-1)
        if rs is None: return 'res shape'
        rcore,rargs=rs
        if not (rcore[0]=='f' and rcore[2]=='\\' and derived(rcore[1],y[1],pool) and derived(rcore[3],core[3],pool)): return 'res core'
        if [s for s,_ in rargs]!=[s for s,_ in args]: return 'res slashes'
        return None if all(derived(ra,a,pool) for (_,ra),(_,a) in zip(rargs,args)) else 'res args'
    if sym.startswith('>Bx'):
        n=int(sym[3:])
        if not (x[0]=='f' and x[2] in '/|'): return 'shape x'
        sp=spine(y,n-1)
        if sp is None: return 'shape y'
        core,args=sp
        if not (core[0]=='f' and core[2] in '\\|'): return 'shape core'
        m=chk(x[3],core[1])
        if m is None: return None
        if not m: return 'B'
        if is_mod(x): return None if res==y else 'mod'
        rs=spine(res,n-1)
        if rs is None: return 'res shape'
        rcore,rargs=rs
        if not (rcore[0]=='f' and rcore[2]=='\\'): return 'res core slash must be \\ (secondary functor)'
        if not (derived(rcore[1],x[1],pool) and derived(rcore[3],core[3],pool)): return 'res core'
        if [s for s,_ in rargs]!=[s for s,_ in args]: return 'res slashes'
        return None if all(derived(ra,a,pool) for (_,ra),(_,a) in zip(rargs,args)) else 'res args'
    if sym=='SSEQ':
        return None if x in ROOTS and y in ROOTS and res==y else 'sseq'
    return 'unknown'
if __name__=='__main__':
    J=list(dict.fromkeys(load('targets.ja')))
    N=int(sys.argv[1])
    bad=collections.Counter(); ex={}; n=nr=unspec=0
    for x in J[:N]:
        for y in J[:N]:
            try: rr=ja.apply_binary_rules(x,y)
            except Exception as e:
                bad[('EXC',repr(e)[:60])]+=1; ex.setdefault(('EXC',repr(e)[:60]),(str(x),str(y))); continue
            n+=1
            for r in rr:
                nr+=1
                why=justify(M(x),M(y),M(r.cat),r.op_symbol)
                if r.head_is_left: why='head'
                if why: bad[(r.op_symbol,why)]+=1; ex.setdefault((r.op_symbol,why),(str(x),str(y),str(r.cat)))
    print(n,'pairs',nr,'results')
    for k,v in bad.most_common(): print(v,k,ex[k])
