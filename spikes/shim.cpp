#include <climits>
#include <cstdlib>
#include "depccg/parsing.h"
typedef int (*py_rule_cb)(unsigned x, unsigned y, void *results);
static py_rule_cb g_bin, g_un;
typedef void (*py_fin_cb)(parsing::cell_item*);
static py_fin_cb g_fin;
static int scaffold(void *cb, unsigned x, unsigned y, std::vector<combinator_result> *results){
  return ((py_rule_cb)cb)(x,y,(void*)results);
}
static unsigned finalizer(parsing::cell_item *item, unsigned *tok, cache_type *cache, void *args){ g_fin(item); return 0;}
extern "C" {
void push_result(void *results, unsigned cat_id, unsigned rule_id, int head_is_left){
  combinator_result r; r.cat_id=cat_id; r.rule_id=rule_id; r.head_is_left=head_is_left; 
  ((std::vector<combinator_result>*)results)->push_back(r);
}
void *new_cache(){ return new cache_type(); }
void del_cache(void*c){ delete (cache_type*)c; }
int run_parse(float *tag, float*dep, unsigned length, unsigned *roots, unsigned nroots, py_rule_cb bin, py_rule_cb un, py_fin_cb fin, void *cache,
   unsigned num_tags, float unary_penalty, float beta, int use_beta, unsigned pruning_size, unsigned nbest, unsigned max_step){
  std::unordered_set<unsigned> rs(roots, roots+nroots);
  config c{num_tags, unary_penalty, beta, (bool)use_beta, pruning_size, nbest, max_step};
  g_fin=fin;
  try { return parse_sentence(tag, dep, length, rs, (void*)bin, (void*)un, finalizer, scaffold, nullptr, (cache_type*)cache, &c);} catch(std::exception&e){ return -1; }
}
int item_fin(parsing::cell_item*i){return i->fin;}
unsigned item_cat(parsing::cell_item*i){return i->cat;}
parsing::cell_item* item_left(parsing::cell_item*i){return i->left;}
parsing::cell_item* item_right(parsing::cell_item*i){return i->right;}
float item_in(parsing::cell_item*i){return i->in_score;}
float item_out(parsing::cell_item*i){return i->out_score;}
unsigned item_start(parsing::cell_item*i){return i->start_of_span;}
unsigned item_len(parsing::cell_item*i){return i->span_length;}
unsigned item_head(parsing::cell_item*i){return i->head_id;}
unsigned item_rule(parsing::cell_item*i){return i->rule_id;}
}
