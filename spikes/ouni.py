import sys,random,collections; sys.path.insert(0,'/repo')
from depccg.cat import Category, Atom, Functor, UnaryFeature, TernaryFeature
from depccg.unification import Unification
from oen import M, blind, leaves
import oja
# model-level unify spec
def compat_en(a,b): return a==b or a in (None,'nb','X') or b in (None,'nb','X')
def compat(a,b):
    if isinstance(a,tuple) or isinstance(b,tuple): return oja.compat3(a,b)
    return compat_en(a,b)
def spec(px,py,x,y):
    """returns (verdict True/False/None, bindings var->list of matched subcats)"""
    occ=collections.defaultdict(list)
    def shape(p,t,side):
        if p[0]=='a':
            occ[p[1]].append((side,t)); return True
        if t[0]!='f': return False
        if not (p[2]==t[2] or '|' in (p[2],t[2])): return False
        return shape(p[1],t[1],side) and shape(p[3],t[3],side)
    if not (shape(px,x,'x') and shape(py,y,'y')): return False,occ
    unspec=False
    for v,os_ in occ.items():
        if len(os_)>1:
            b0=blind(os_[0][1])
            if any(blind(t)!=b0 for _,t in os_): return False,occ
            xs=[t for s,t in os_ if s=='x']; ys=[t for s,t in os_ if s=='y']
            for tx in xs:
                for ty in ys:
                    for p,q in zip(leaves(tx),leaves(ty)):
                        c=compat(p[2],q[2])
                        if c is False: return False,occ
                        if c is None: unspec=True
    return (None if unspec else True),occ
# generators (scratch, plain random)
EN_F=[None,None,'dcl','b','ng','X','nb','conj']
def ja_feat(rng,base):
    if base=='S': ks=('mod','form','fin'); vs=(['nm','adn','adv','X1'],['base','cont','stem','X2'],['f','t','X3'])
    else: ks=('case','mod','fin'); vs=(['nc','ga','o','X1'],['nm','adv','X2'],['f','t','X3'])
    return tuple((k,rng.choice(v)) for k,v in zip(ks,vs))
def gen_cat(rng,sysm,depth):
    if depth==0 or rng.random()<0.35:
        b=rng.choice(['S','NP','N','PP'] if sysm=='en' else ['S','NP'])
        return ('a',b, rng.choice(EN_F) if sysm=='en' else ja_feat(rng,b))
    return ('f',gen_cat(rng,sysm,depth-1),rng.choice(['/','\\','/','\\','|']),gen_cat(rng,sysm,depth-1))
def to_cat(m):
    if m[0]=='f': return Functor(to_cat(m[1]),m[2],to_cat(m[3]))
    f=m[2]
    if isinstance(f,tuple): return Atom(m[1],TernaryFeature(*f))
    return Atom(m[1],UnaryFeature(f))
def refeature(rng,m,sysm,p):
    if m[0]=='f': return ('f',refeature(rng,m[1],sysm,p),m[2],refeature(rng,m[3],sysm,p))
    if rng.random()<p: return ('a',m[1], rng.choice(EN_F) if sysm=='en' else ja_feat(rng,m[1]))
    return m
def inst(rng,p,env,sysm,pert):
    if p[0]=='a':
        if p[1] not in env: env[p[1]]=gen_cat(rng,sysm,rng.choice([0,0,1,2]))
        t=env[p[1]]
        t=refeature(rng,t,sysm,pert)
        if rng.random()<pert/4: t=gen_cat(rng,sysm,1)
        return t
    s=p[2]
    if s=='|': s=rng.choice('/\\')
    if rng.random()<pert/3: s=rng.choice('/\\|')
    return ('f',inst(rng,p[1],env,sysm,pert),s,inst(rng,p[3],env,sysm,pert))
PATS=[("a/b","b"),("b","a\\b"),("a/b","b/c"),("b/c","a\\b"),("a/b","(b/c)|d"),("(b/c)|d","a/b"),("b\\c","a\\b"),("(b\\c)|d","a\\b"),("((b\\c)|d)|e","a\\b"),("(((b\\c)|d)|e)|f","a\\b"),("a/b","b\\c"),("a/b","(b\\c)|d"),("a/b","((b\\c)|d)|e")]
if __name__=='__main__':
    rng=random.Random(int(sys.argv[1])); N=int(sys.argv[2])
    stats=collections.Counter(); bad=[]
    for i in range(N):
        px,py=rng.choice(PATS); sysm=rng.choice(['en','ja'])
        mpx,mpy=M(Category.parse(px)),M(Category.parse(py))
        env={}; pert=rng.choice([0,0,0.15,0.4])
        x=inst(rng,mpx,env,sysm,pert); y=inst(rng,mpy,env,sysm,pert)
        verdict,occ=spec(mpx,mpy,x,y)
        u=Unification(px,py)
        try: got=u(to_cat(x),to_cat(y))
        except Exception as e:
            stats['EXC '+type(e).__name__]+=1; 
            if len(bad)<5: bad.append(('EXC',px,py,str(to_cat(x)),str(to_cat(y)),repr(e)))
            continue
        stats[(verdict,got)]+=1
        if verdict is not None and verdict!=got and len(bad)<8: bad.append((px,py,str(to_cat(x)),str(to_cat(y)),verdict,got))
        if got:
            pool={l[2] for l in leaves(x)}|{l[2] for l in leaves(y)}
            for v,os_ in occ.items():
                b=M(u[v]); ok=False
                for _,t in os_:
                    if blind(b)==blind(t) and all(r[2]==s[2] or ((s[2]=='X' or oja.isvar(s[2])) and r[2] in pool) for r,s in zip(leaves(b),leaves(t))): ok=True
                if not ok:
                    stats['badbinding']+=1
                    if len(bad)<8: bad.append(('BIND',px,py,str(to_cat(x)),str(to_cat(y)),v,str(u[v])))
    print(stats); 
    for b in bad: print(b)
