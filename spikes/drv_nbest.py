import sys, random, itertools
sys.argv_lib = sys.argv[3] if len(sys.argv)>3 else 'libshim_fix1.so'
src=open('drv.py').read().replace("libshim.so", sys.argv_lib).split("if __name__=='__main__':")[0]
exec(src)
def enum(tag,dep,roots,binary,unary,head_left,up):
    n,T=tag.shape
    from functools import lru_cache
    memo={}
    def span(i,j):
        if (i,j) in memo: return memo[(i,j)]
        items=[]  # (cat, score, treerepr)
        if j==i+1:
            for c in range(T): items.append((c,float(tag[i,c]),('L',c,i)))
        else:
            for k in range(i+1,j):
                hl = i if head_left else k-1
                hr = k if head_left else j-1
                d = float(dep[hr,hl+1]) if head_left else float(dep[hl,hr+1])
                for (x,sx,tx) in span(i,k):
                    for (y,sy,ty) in span(k,j):
                        for ri,r in enumerate(binary.get((x,y),[])):
                            items.append((r,sx+sy+d,('B',r,ri,tx,ty)))
        if j-i==1 or j-i!=n or n==1:
            # unary closure (acyclic)
            frontier=list(items)
            while frontier:
                new=[]
                for (c,s,t) in frontier:
                    for ri,r in enumerate(unary.get(c,[])):
                        new.append((r,s-up,('U',r,ri,t)))
                items.extend(new); frontier=new
        memo[(i,j)]=items
        return items
    h=0 if head_left else n-1
    return sorted([s+float(dep[h,0]) for (c,s,t) in span(0,n) if c in roots], reverse=True)
rng=random.Random(int(sys.argv[1])); N=int(sys.argv[2]); bad=0; nontriv=0
for it in range(N):
    tag,dep,roots,binary,unary,hl,T,up=gen(rng)
    if tag.shape[0]>4: continue
    # dedupe exact duplicate results
    binary={k:list(dict.fromkeys(v)) for k,v in binary.items()}
    k=rng.randint(1,6)
    allv=enum(tag,dep,roots,binary,unary,hl,up)
    if len(allv)>5000: continue
    st,out=parse(tag,dep,roots,binary,unary,hl,T,up=up,nbest=k)
    got=[o[1] for o in out] if st==0 else []
    exp=allv[:k]
    if len(allv)>k>=2: nontriv+=1
    if got!=exp or got!=sorted(got,reverse=True) or len(set(map(repr,out)))!=len(out):
        bad+=1
        if bad<=3: print('MISMATCH k',k,'got',got,'exp',exp,'n',tag.shape[0], 'total',len(allv))
print('cases',N,'nontrivial',nontriv,'bad',bad)
