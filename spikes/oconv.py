import sys,random,collections; sys.path.insert(0,'/repo')
from depccg.cat import Category
from depccg.grammar import en, ja
from oen import M, F, is_mod, bare, erase
from ouni import gen_cat, to_cat
import ouni
# expected result with identical matched parts
def E(sym,v):  # v: dict var->model
    a,b,c,d,e,f=(v.get(k) for k in 'abcdef')
    return None
SCHEMAS_EN=[ # (label,symbol, x builder, y builder, expected, sidecond)
 ('fa','>',   lambda v:F(v['a'],'/',v['b']), lambda v:v['b'], lambda v,x,y: y if is_mod(x) else v['a'], None),
 ('ba','<',   lambda v:v['b'], lambda v:F(v['a'],'\\',v['b']), lambda v,x,y: x if is_mod(y) else v['a'], None),
 ('fc','>B',  lambda v:F(v['a'],'/',v['b']), lambda v:F(v['b'],'/',v['c']), lambda v,x,y: y if is_mod(x) else F(v['a'],'/',v['c']), None),
 ('bx','<B',  lambda v:F(v['b'],'/',v['c']), lambda v:F(v['a'],'\\',v['b']), lambda v,x,y: x if is_mod(y) else F(v['a'],'/',v['c']), lambda v: not bare(v['b'])),
 ('gfc','>B', lambda v:F(v['a'],'/',v['b']), lambda v:F(F(v['b'],'/',v['c']),v['s'],v['d']), lambda v,x,y: y if is_mod(x) else F(F(v['a'],'/',v['c']),v['s'],v['d']), None),
 ('gbx','<B', lambda v:F(F(v['b'],'/',v['c']),v['s'],v['d']), lambda v:F(v['a'],'\\',v['b']), lambda v,x,y: x if is_mod(y) else F(F(v['a'],'/',v['c']),v['s'],v['d']), lambda v: not bare(v['b'])),
]
def wrap(core,args):
    for s,a in args: core=F(core,s,a)
    return core
def ja_schemas():
    S=[('>',lambda v:F(v['a'],'/',v['b']), lambda v:v['b'], lambda v,x,y: y if is_mod(x) else v['a']),
       ('<',lambda v:v['b'], lambda v:F(v['a'],'\\',v['b']), lambda v,x,y: x if is_mod(y) else v['a']),
       ('>B',lambda v:F(v['a'],'/',v['b']), lambda v:F(v['b'],'/',v['c']), lambda v,x,y: y if is_mod(x) else F(v['a'],'/',v['c']))]
    for n in (1,2,3,4):
        S.append((f'<B{n}', (lambda n: lambda v: wrap(F(v['b'],'\\',v['c']), v['args'][:n-1]))(n), lambda v:F(v['a'],'\\',v['b']),
                  (lambda n: lambda v,x,y: x if is_mod(y) else wrap(F(v['a'],'\\',v['c']), v['args'][:n-1]))(n)))
    for n in (1,2,3):
        S.append((f'>Bx{n}', lambda v:F(v['a'],'/',v['b']), (lambda n: lambda v: wrap(F(v['b'],'\\',v['c']), v['args'][:n-1]))(n),
                  (lambda n: lambda v,x,y: y if is_mod(x) else wrap(F(v['a'],'\\',v['c']), v['args'][:n-1]))(n)))
    return S
if __name__=='__main__':
    rng=random.Random(int(sys.argv[1])); N=int(sys.argv[2])
    bad=collections.Counter(); ex={}; n=collections.Counter()
    for it in range(N):
        v={k:gen_cat(rng,'en',rng.choice([0,0,1,1,2])) for k in 'abcd'}; v['s']=rng.choice('/\\')
        if rng.random()<0.25: v['a']=v['b']   # force modifiers
        lab,sym,bx,by,exp,side=rng.choice(SCHEMAS_EN)
        x,y=bx(v),by(v)
        # premises evaluated on nb-erased inputs
        v2={k:(erase(t,('nb',)) if isinstance(t,tuple) else t) for k,t in v.items()}
        x2,y2=bx(v2),by(v2)
        if side and not side(v2): 
            # expect NO result with that label
            got=[r for r in en.apply_binary_rules(to_cat(x),to_cat(y)) if (r.op_string,r.op_symbol)==(lab,sym)]
            n[lab+' neg']+=1
            if got: bad[(lab,'fires over bare N/NP')]+=1; ex.setdefault((lab,'fires over bare N/NP'),(str(to_cat(x)),str(to_cat(y)),str(got[0].cat)))
            continue
        want=exp(v2,x2,y2)
        got=[M(r.cat) for r in en.apply_binary_rules(to_cat(x),to_cat(y)) if (r.op_string,r.op_symbol)==(lab,sym)]
        n[lab]+=1
        if want not in got: bad[(lab,'missing')]+=1; ex.setdefault((lab,'missing'),(str(to_cat(x)),str(to_cat(y)),str(to_cat(want)),[str(to_cat(g)) for g in got]))
    print('EN',dict(n)); 
    for k,c in bad.items(): print(c,k,ex[k])
    bad.clear(); ex.clear(); n.clear()
    JS=ja_schemas()
    for it in range(N):
        v={k:gen_cat(rng,'ja',rng.choice([0,0,1,1])) for k in 'abc'}
        v['args']=[(rng.choice('/\\'),gen_cat(rng,'ja',rng.choice([0,0,1]))) for _ in range(3)]
        if rng.random()<0.25: v['a']=v['b']
        sym,bx,by,exp=rng.choice(JS)
        x,y=bx(v),by(v)
        want=exp(v,x,y)
        got=[M(r.cat) for r in ja.apply_binary_rules(to_cat(x),to_cat(y)) if r.op_symbol==sym]
        n[sym]+=1
        if want not in got: bad[(sym,'missing')]+=1; ex.setdefault((sym,'missing'),(str(to_cat(x)),str(to_cat(y)),'want',str(to_cat(want)),'got',[str(to_cat(g)) for g in got]))
    print('JA',dict(n))
    for k,c in bad.items(): print(c,k,ex[k])
