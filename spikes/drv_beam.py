import sys, random, math
lib=sys.argv[3]
src=open('drv.py').read().replace("libshim.so", lib).split("if __name__=='__main__':")[0]
exec(src)
def admitted(tag, prune, beta, use_beta, eps=1e-4):
    n,T=tag.shape; must=[];may=[]
    for i in range(n):
        row=[float(v) for v in tag[i]]
        order=sorted(range(T), key=lambda c:-row[c])
        best=row[order[0]]
        mu=set();ma=set()
        for c in range(T):
            higher=sum(1 for d in range(T) if row[d]>row[c]); ties=sum(1 for d in range(T) if row[d]==row[c] and d!=c)
            rank_lo=higher; rank_hi=higher+ties
            if rank_lo>=prune: continue
            okmust = rank_hi<prune; okmay=True
            if use_beta:
                lhs=row[c]-best; thr=math.log(beta)
                if lhs < thr-eps: okmay=False; okmust=False
                elif lhs < thr+eps: okmust=False
            if okmay: ma.add(c)
            if okmust: mu.add(c)
        # the break rule: tags after the first sub-threshold one are excluded anyway (they are lower)
        must.append(mu); may.append(ma)
    return must,may
def brute_adm(tag,dep,roots,binary,unary,hl,up,adm):
    import numpy as np
    t2=tag.copy()
    NEG=-1e9
    for i in range(tag.shape[0]):
        for c in range(tag.shape[1]):
            if c not in adm[i]: t2[i,c]=NEG
    b=brute(t2,dep,roots,binary,unary,hl,up=up)
    return None if (b is None or b<-1e8) else b
rng=random.Random(int(sys.argv[1])); N=int(sys.argv[2]); bad=0; nt=0; onlyex=0
for it in range(N):
    tag,dep,roots,binary,unary,hl,T,up=gen(rng)
    n=tag.shape[0]
    beta=rng.choice([1e-5,0.01,0.1,0.5]); use_beta=rng.random()<0.7; prune=rng.randint(1,T+1)
    # adversarial rows around threshold
    for i in range(n):
        if rng.random()<0.6:
            s0=-rng.randint(0,8)/8
            for c in range(T):
                tag[i,c]= s0 if c==0 else s0+math.log(beta)+rng.choice([-3,-0.5,-0.01,0.01,0.5,3]) if rng.random()<0.8 else -rng.randint(0,64)/8
            tag[i]=np.minimum(tag[i],0)
            perm=list(range(T)); rng.shuffle(perm); tag[i]=tag[i][perm]
    must,may=admitted(tag,prune,beta,use_beta)
    if any(len(may[i])<T for i in range(n)): nt+=1
    st,out=parse(tag,dep,roots,binary,unary,hl,T,up=up,beta=beta,use_beta=use_beta,prune=prune)
    lo=brute_adm(tag,dep,roots,binary,unary,hl,up,must); hi=brute_adm(tag,dep,roots,binary,unary,hl,up,may)
    full=brute(tag,dep,roots,binary,unary,hl,up=up)
    if hi is None and full is not None: onlyex+=1
    ok=True
    if st!=0:
        ok = (lo is None)
    else:
        got=out[0][1]
        def leaves(t):
            if t[0]=='FIN': return leaves(t[2])
            if t[0]=='L': return [(t[2],t[1])]
            if t[0]=='U': return leaves(t[2])
            return leaves(t[2])+leaves(t[3])
        ok = hi is not None and got<=hi+1e-3 and (lo is None or got>=lo-1e-3) and all(c in may[i] for i,c in leaves(out[0]))
    if not ok:
        bad+=1
        if bad<=3: print('BAD st',st,'got',out[0][1] if out else None,'lo',lo,'hi',hi,'beta',beta,use_beta,'prune',prune,'\n',tag)
print(lib,'cases',N,'nontrivial(beam excludes something)',nt,'only-derivations-need-excluded',onlyex,'bad',bad)
