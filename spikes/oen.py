import sys,re,collections; sys.path.insert(0,'/repo')
from depccg.cat import Category
from depccg.grammar import en
from string import ascii_letters
# ---- model
def M(c):
    if c.is_functor: return ('f', M(c.left), c.slash, M(c.right))
    f=c.feature
    v=getattr(f,'value',None)
    if hasattr(f,'kv1'): v=tuple(f.items())
    return ('a', c.base, v)
def erase(m, names):
    if m[0]=='f': return ('f', erase(m[1],names), m[2], erase(m[3],names))
    return ('a', m[1], None) if m[2] in names else m
def blind(m):
    if m[0]=='f': return ('f', blind(m[1]), m[2], blind(m[3]))
    return ('a', m[1])
def leaves(m):
    if m[0]=='f': return leaves(m[1])+leaves(m[3])
    return [m]
def feats(m): return {l[2] for l in leaves(m)}
def compat1(a,b):
    return a==b or a in (None,'nb','X') or b in (None,'nb','X')
def match(b1,b2):
    """feature-blind equal and leafwise compatible"""
    if blind(b1)!=blind(b2): return False
    return all(compat1(p[2],q[2]) for p,q in zip(leaves(b1),leaves(b2)))
def slash_ok(pat, s): return s==pat or s=='|'
def is_fun(m,pat=None): return m[0]=='f' and (pat is None or slash_ok(pat,m[2]))
def is_mod(m): return m[0]=='f' and m[1]==m[3]
def is_punct(m): return m[0]=='a' and (m[1][0] not in ascii_letters or m[1] in ('LRB','RRB','LQU','RQU'))
def is_tr(m): return m[0]=='f' and m[3][0]=='f' and m[3][1]==m[1]
def derived(res, src, pool):
    """res is src with at most variable features replaced by features from pool"""
    if blind(res)!=blind(src): return False
    for r,s in zip(leaves(res),leaves(src)):
        if r[2]==s[2]: continue
        if s[2]=='X' and r[2] in pool: continue
        return False
    return True
def F(l,s,r): return ('f',l,s,r)
def bare(m): return m in (('a','N',None),('a','NP',None))
def justify(x,y,res,label,sym):
    pool=feats(x)|feats(y)
    if (label,sym)==('fa','>'):
        if not is_fun(x,'/'): return 'x not A/B'
        A,B=x[1],x[3]
        if not match(B,y): return 'B !~ y'
        if is_mod(x): return None if res==y else 'modifier must return y'
        return None if derived(res,A,pool) else 'res not derived from A'
    if (label,sym)==('ba','<'):
        if x==('a','S','dcl') and y==F(('a','S','em'),'\\',('a','S','em')): return None if res==x else 'special'
        if not is_fun(y,'\\'): return 'y not A\\B'
        A,B=y[1],y[3]
        if not match(B,x): return 'B !~ x'
        if is_mod(y): return None if res==x else 'modifier must return x'
        return None if derived(res,A,pool) else 'res not derived from A'
    if (label,sym)==('fc','>B'):
        if not (is_fun(x,'/') and is_fun(y,'/')): return 'shape'
        A,B,B2,Cc=x[1],x[3],y[1],y[3]
        if not match(B,B2): return 'B !~ B2'
        if is_mod(x): return None if res==y else 'modifier must return y'
        if res[0]!='f' or res[2]!='/': return 'res slash'
        return None if derived(res[1],A,pool) and derived(res[3],Cc,pool) else 'res not A/C'
    if (label,sym)==('bx','<B'):
        if not (is_fun(x,'/') and is_fun(y,'\\')): return 'shape'
        B,Cc,A,B2=x[1],x[3],y[1],y[3]
        if not match(B,B2): return 'B !~ B2'
        if bare(B) and bare(B2): return 'composes over bare N/NP'
        if is_mod(y): return None if res==x else 'modifier must return x'
        if res[0]!='f' or res[2]!='/': return 'res slash'
        return None if derived(res[1],A,pool) and derived(res[3],Cc,pool) else 'res not A/C'
    if (label,sym)==('gfc','>B'):
        if not (is_fun(x,'/') and y[0]=='f' and is_fun(y[1],'/')): return 'shape'
        A,B=x[1],x[3]; B2,Cc,D=y[1][1],y[1][3],y[3]
        if not match(B,B2): return 'B !~ B2'
        if is_mod(x): return None if res==y else 'modifier must return y'
        if res[0]!='f' or res[2]!=y[2] or res[1][0]!='f' or res[1][2]!='/': return 'res shape'
        return None if derived(res[1][1],A,pool) and derived(res[1][3],Cc,pool) and derived(res[3],D,pool) else 'res parts'
    if (label,sym)==('gbx','<B'):
        if not (x[0]=='f' and is_fun(x[1],'/') and is_fun(y,'\\')): return 'shape (y must be A\\B, x (B/C)|D)'
        B,Cc,D=x[1][1],x[1][3],x[3]; A,B2=y[1],y[3]
        if not match(B,B2): return 'B !~ B2'
        if bare(B) and bare(B2): return 'composes over bare N/NP'
        if is_mod(y): return None if res==x else 'modifier must return x'
        if res[0]!='f' or res[2]!=x[2] or res[1][0]!='f' or res[1][2]!='/': return 'res shape'
        return None if derived(res[1][1],A,pool) and derived(res[1][3],Cc,pool) and derived(res[3],D,pool) else 'res parts'
    if (label,sym)==('conj','<Φ>'):
        if x==('a','conj',None) and y==F(('a','NP',None),'\\',('a','NP',None)) and res==y: return None
        if x in (('a',',',None),('a',';',None),('a','conj',None)) and not is_punct(y) and not is_tr(y) and res==F(y,'\\',y): return None
        return 'conj premises'
    if (label,sym)==('lp','<lp>'):
        if is_punct(x) and res==y: return None
        if x in (('a','LQU',None),('a','LRB',None)) and res==F(y,'\\',y): return None
        return 'lp premises'
    if (label,sym)==('rp','<rp>'):
        return None if is_punct(y) and res==x else 'rp premises'
    if (label,sym)==('lp','<*>'):
        SNP=F(('a','S',None),'\\',('a','NP',None))
        if x==('a',',',None) and y in (F(('a','S','ng'),'\\',('a','NP',None)),F(('a','S','pss'),'\\',('a','NP',None))) and res==F(SNP,'\\',SNP): return None
        if x==('a',',',None) and y==F(('a','S','dcl'),'/',('a','S','dcl')) and res==F(SNP,'/',SNP): return None
        return '<*> premises'
    return 'unknown label'
def load(f):
    txt=open(f'/repo/depccg/models/{f}.jsonnet').read()
    return [Category.parse(s.replace('\\\\','\\')) for s in re.findall(r"'((?:[^'\\]|\\.)*)'", txt)]
if __name__=='__main__':
    E=list(dict.fromkeys(load('targets.en')+load('targets.en_rebank')))
    N=int(sys.argv[1]) if len(sys.argv)>1 else 200
    bad=collections.Counter(); ex={}
    n=0;nr=0
    for x in E[:N]:
        for y in E[:N]:
            xs,ys=M(x),M(y); x2,y2=erase(xs,('nb',)),erase(ys,('nb',))
            for r in en.apply_binary_rules(x,y):
                nr+=1
                why=justify(x2,y2,M(r.cat),r.op_string,r.op_symbol)
                if not r.head_is_left: why='head'
                if why:
                    bad[(r.op_string,why)]+=1; ex.setdefault((r.op_string,why),(str(x),str(y),str(r.cat)))
            n+=1
    print(n,'pairs',nr,'results')
    for k,v in bad.most_common(): print(v,k,ex[k])
