import sys; sys.path.insert(0,'/tmp/explore'); sys.path.insert(0,'/repo')
import stubs; stubs.install()
import tempfile, os, traceback, copy
from depccg.cat import Category
from depccg.tree import Tree, ScoredTree
from depccg.types import Token
from depccg.printer import to_string
from depccg.lang import set_global_language_to
from depccg.grammar import en, ja
from depccg.tools import reader
from depccg.tools.ja import reader as jareader
C=Category.parse
def leaf(w,c): return Tree.make_terminal(Token.of_word(w), C(c))
def binr(l,r,lang=en):
    res=lang.apply_binary_rules(l.cat,r.cat)
    assert res, (l.cat,r.cat)
    x=res[0]
    return Tree.make_binary(x.cat,l,r,x.op_string,x.op_symbol,x.head_is_left)
def mk():
    return binr(binr(leaf('this','NP'), binr(leaf('is','(S[dcl]\\NP)/NP'), binr(leaf('a','NP[nb]/N'), binr(leaf('(','N/N'), Tree.make_unary(C('N'), leaf('<s>','S[ng]\\NP')))))), leaf('.','.'))
def dump(t,ind=0):
    if t.is_leaf: print(' '*ind, 'L', t.cat, dict(t.token)); return
    print(' '*ind, 'T', t.cat, t.op_string, t.op_symbol, t.head_is_left)
    for c in t.children: dump(c, ind+1)
def trial(fmt, rd, lang='en', t=None):
    set_global_language_to(lang)
    t = t or mk()
    s=to_string([[ScoredTree(t,-0.5)]],format=fmt)
    p=tempfile.mktemp(suffix='.'+fmt, dir='/tmp/explore'); open(p,'w').write(s)
    print('=======',fmt); print(s[:600])
    try:
        for r in rd(p):
            print(r.name, [dict(x) for x in r.tokens][:3]); dump(r.tree)
    except Exception as e:
        traceback.print_exc(limit=4)
    os.unlink(p)
trial('auto', reader.read_auto)
trial('ptb', reader.read_ptb)
trial('xml', reader.read_xml)
trial('jigg_xml', reader.read_jigg_xml)
J="S[mod=nm,form=base,fin=f]"
jt = binr(binr(leaf('これ','NP[case=nc,mod=nm,fin=f]'), leaf('は','NP[case=nc,mod=nm,fin=f]\\NP[case=nc,mod=nm,fin=f]'), ja), leaf('です','S[mod=nm,form=base,fin=f]\\NP[case=nc,mod=nm,fin=f]'), ja)
trial('ja', jareader.read_ccgbank, 'ja', jt)
jt = binr(binr(leaf('これ','NP[case=nc,mod=nm,fin=f]'), leaf('は','NP[case=nc,mod=nm,fin=f]\\NP[case=nc,mod=nm,fin=f]'), ja), leaf('です','S[mod=nm,form=base,fin=f]\\NP[case=nc,mod=nm,fin=f]'), ja)
trial('jigg_xml', reader.read_jigg_xml, 'ja', jt)
