import sys, os; sys.path.insert(0,'/tmp/explore'); sys.path.insert(0,'/repo')
import stubs; stubs.install()
import warnings; warnings.simplefilter('ignore')
import logging; logging.disable(logging.CRITICAL)
from hypothesis import given, settings, strategies as st, seed, HealthCheck, Phase
from depccg.cat import Category, Atom, Functor, UnaryFeature, TernaryFeature
from oen import M
EN_F=[None,'dcl','b','X','nb','conj']
def ja_feat(base):
    if base=='S': return st.tuples(st.sampled_from(['nm','adn','X1']),st.sampled_from(['base','cont','X2']),st.sampled_from(['f','t','X3'])).map(lambda v: tuple(zip(('mod','form','fin'),v)))
    return st.tuples(st.sampled_from(['nc','ga','X1']),st.sampled_from(['nm','adv','X2']),st.sampled_from(['f','t'])).map(lambda v: tuple(zip(('case','mod','fin'),v)))
def atoms(sysm):
    if sysm=='en':
        return st.one_of(st.tuples(st.just('a'),st.sampled_from(['S','NP','N','PP']),st.sampled_from(EN_F)), st.tuples(st.just('a'),st.sampled_from([',','.',';',':','LRB','RRB','conj']),st.just(None)))
    return st.sampled_from(['S','NP']).flatmap(lambda b: ja_feat(b).map(lambda f:('a',b,f)))
def cats(sysm): return st.recursive(atoms(sysm), lambda ch: st.tuples(st.just('f'),ch,st.sampled_from(['/','\\','|']),ch), max_leaves=6)
def to_cat(m):
    if m[0]=='f': return Functor(to_cat(m[1]),m[2],to_cat(m[3]))
    f=m[2]
    return Atom(m[1],TernaryFeature(*f)) if isinstance(f,tuple) else Atom(m[1],UnaryFeature(f))
def ftxt(f): return '' if f is None else '['+(','.join(f'{k}={v}' for k,v in f) if isinstance(f,tuple) else f)+']'
@st.composite
def text_of(draw, m, top=True):
    sp=lambda: draw(st.sampled_from(['','',' ','  ']))
    if m[0]=='a':
        t=m[1]+ (('['+sp()+ftxt(m[2])[1:-1]+sp()+']') if m[2] is not None else '')
        need=False
    else:
        t=draw(text_of(m[1],False))+sp()+m[2]+sp()+draw(text_of(m[3],False)); need=not top
    k=draw(st.integers(0,2))+(1 if need else 0)
    for _ in range(k):
        o,c=draw(st.sampled_from(['()','<>'])); t=o+sp()+t+sp()+c
    return t
def canon(m,top=True):
    if m[0]=='a': return m[1]+ftxt(m[2])
    w=lambda x: '('+canon(x,False)+')' if x[0]=='f' else canon(x)
    return w(m[1])+m[2]+w(m[3])
cnt={'n':0,'nontriv':0}
@seed(int(os.environ.get('VERIF_SEED','1')))
@settings(max_examples=int(sys.argv[1]), database=None, deadline=None, suppress_health_check=list(HealthCheck))
@given(st.data())
def test(data):
    sysm=data.draw(st.sampled_from(['en','ja'])); m=data.draw(cats(sysm)); c=to_cat(m)
    cnt['n']+=1
    assert M(c)==m
    assert str(c)==canon(m), (str(c),canon(m))
    assert Category.parse(str(c))==c
    t=data.draw(text_of(m))
    if t!=canon(m): cnt['nontriv']+=1
    p=Category.parse(t)
    assert p==c and str(p)==canon(m), (t,str(p),canon(m))
    assert hash(p)==hash(c) and {c:1}[p]==1
test(); print(cnt)
