import sys, os, tempfile
exec(open('h2.py').read().split("def snap(t):")[0])
from depccg.tools.reader import read_xml, read_jigg_xml
from depccg.lang import set_global_language_to
from depccg.printer.jigg_xml import to_jigg_xml
import copy, collections
xmlch=st.one_of(st.sampled_from(list(special+'\\')), st.characters(blacklist_categories=('Cc','Cs','Zs','Zl','Zp','Cn','Co'), blacklist_characters='￾￿    　﻿\x85'))
xword=st.text(xmlch,min_size=1,max_size=6)
def xtoken(): return st.builds(lambda w,p,l,e,c: Token(word=w,pos=p,lemma=l,entity=e,chunk=c), xword, xword, xword, xword, xword)
def xtrees(sysm):
    leaf=st.builds(lambda t,c: Tree.make_terminal(t,to_cat(c)), xtoken(), cats(sysm))
    def ext(ch):
        return st.one_of(st.builds(lambda c,k: Tree.make_unary(to_cat(c),k,'lex','<un>'), cats(sysm), ch),
                         st.builds(lambda c,l,r,h: Tree.make_binary(to_cat(c),l,r,'fa','>',h), cats(sysm), ch, ch, st.booleans()))
    return st.recursive(leaf, ext, max_leaves=6)
def snapx(t, keys):
    if t.is_leaf: return ('L',str(t.cat),tuple((k,t.token.get(k)) for k in keys))
    return ('T',str(t.cat),tuple(snapx(c,keys) for c in t.children))
cnt=collections.Counter(); fails=collections.Counter(); ex={}
@seed(int(os.environ.get('VERIF_SEED','1')))
@settings(max_examples=int(sys.argv[1]), database=None, deadline=None, suppress_health_check=list(HealthCheck))
@given(st.data())
def test(data):
    cnt['n']+=1
    sysm=data.draw(st.sampled_from(['en','ja'])); set_global_language_to(sysm)
    t=data.draw(xtrees(sysm)); nb=data.draw(st.integers(1,2))
    batch=[[ScoredTree(t,-1.0)]*nb]
    if sysm=='en':
        s=to_string(copy.deepcopy(batch),format='xml'); p=tempfile.mktemp(suffix='.xml',dir='/tmp/explore'); open(p,'w').write(s)
        try:
            try: rs=list(read_xml(p))
            except Exception as e: k=('xml read EXC',type(e).__name__,str(e)[:40]); fails[k]+=1; ex.setdefault(k,s[:300]); return
            keys=('word','pos','lemma','entity','chunk')
            if len(rs)!=nb or any(snapx(r.tree,keys)!=snapx(t,keys) for r in rs): k=('xml differs',); fails[k]+=1; ex.setdefault(k,(s[:300])); return
        finally: os.unlink(p)
    else:
        s=to_string(copy.deepcopy(batch),format='jigg_xml'); p=tempfile.mktemp(suffix='.xml',dir='/tmp/explore'); open(p,'w').write(s)
        try:
            try: rs=list(read_jigg_xml(p))
            except Exception as e: k=('jigg read EXC',type(e).__name__,str(e)[:40]); fails[k]+=1; ex.setdefault(k,s[:300]); return
            if len(rs)!=nb or any(snapx(r.tree,('word',))!=snapx(t,('word',)) for r in rs): k=('jigg differs',); fails[k]+=1; ex.setdefault(k,(s[:600], [snapx(r.tree,('word',)) for r in rs], snapx(t,('word',)))); return
        finally: os.unlink(p)
    # audit
    x=to_jigg_xml(copy.deepcopy(batch))
    for sent in x.xpath('//sentence'):
        ids=[sp.get('id') for sp in sent.xpath('.//span')]
        if len(ids)!=len(set(ids)): fails[('dup span ids',)]+=1
        toks={tk.get('id') for tk in sent.xpath('.//token')}
        for ccg in sent.xpath('./ccg'):
            local={sp.get('id'):sp for sp in ccg.xpath('./span')}
            if ccg.get('root') not in local: fails[('root unresolved',)]+=1
            if len([sp for sp in ccg.xpath('./span') if sp.get('root')=='true'])!=1: fails[('root count',)]+=1
            for sp in local.values():
                if sp.get('terminal') is not None and sp.get('terminal') not in toks: fails[('terminal unresolved',)]+=1
                if sp.get('child'):
                    ch=sp.get('child').split()
                    if any(c not in local for c in ch): fails[('child unresolved',)]+=1; continue
                    b=int(sp.get('begin'))
                    for c in ch:
                        if int(local[c].get('begin'))!=b: fails[('tiling',)]+=1
                        b=int(local[c].get('end'))
                    if b!=int(sp.get('end')): fails[('tiling end',)]+=1
    cnt['ok']+=1
test(); print(cnt)
for k,v in fails.items(): print(v,k,str(ex.get(k))[:900])
