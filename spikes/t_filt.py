import sys, random; sys.path.insert(0,'/tmp/explore'); sys.path.insert(0,'/tmp/explore/px'); sys.path.insert(0,'/repo')
import stubs; stubs.install()
import warnings; warnings.simplefilter('ignore')
import pyxlite, numpy as np
mod,rt=pyxlite.build('/repo','/tmp/explore/px/build')
import depccg.parsing
from depccg.cat import Category
from depccg.types import Token, ScoringResult
C=Category.parse
CATS=[C(c) for c in ['NP','N','S[dcl]\\NP','(S[dcl]\\NP)/NP','NP[nb]/N','N/N','.',',']]
rng=random.Random(int(sys.argv[1])); bad=0; nt=0
for it in range(int(sys.argv[2])):
    T=rng.randint(1,len(CATS)); cats=CATS[:T]; vocab=['a','b','c','d','(',"it's"]
    cd={w:[c for c in cats if rng.random()<0.4] for w in vocab if rng.random()<0.5}
    docs=[];scs=[]
    for k in range(rng.randint(1,3)):
        n=rng.randint(1,5); docs.append([Token.of_word(rng.choice(vocab)) for _ in range(n)])
        scs.append(ScoringResult(np.array([[-rng.random()*5 for _ in range(T)] for _ in range(n)],dtype=np.float32), np.array([[-rng.random()*5 for _ in range(n+1)] for _ in range(n)],dtype=np.float32)))
    single = len(docs)==1 and rng.random()<0.5
    orig=[(s.tag_scores.copy(), s.dep_scores.copy()) for s in scs]; words=[[t.word for t in d] for d in docs]
    try:
        d2,s2 = depccg.parsing.apply_category_filters(docs[0] if single else docs, scs[0] if single else scs, cats, cd)
    except Exception as e:
        bad+=1; print('EXC',repr(e), {w:len(v) for w,v in cd.items()}); continue
    if any(w in cd and 0<len(cd[w])<T for ws in words for w in ws): nt+=1
    for (ot,od),s,ws,d in zip(orig,s2,words,d2):
        exp=ot.copy()
        for i,w in enumerate(ws):
            if w in cd:
                for j,c in enumerate(cats):
                    if c not in cd[w]: exp[i,j]=np.float32(-10e+32)
        if not (np.array_equal(exp,s.tag_scores) and np.array_equal(od,s.dep_scores) and [t.word for t in d]==ws):
            bad+=1; print('DIFF')
print('cases',it+1,'nontrivial',nt,'bad',bad)
