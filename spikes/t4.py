import sys; sys.path.insert(0,'/repo')
from depccg.cat import Category
from depccg.grammar import en, ja
C=Category.parse
print('hashseed-sensitive:', [str(r.cat) for r in en.apply_binary_rules(C('S[X]/(NP[X]/N[X])'), C('NP[conj]/N[dcl]'))])
print('gbx wrong shape:', [(str(r.cat), r.op_string) for r in en.apply_binary_rules(C('(S[dcl]\\NP)/PP'), C('S[b]/(S[dcl]\\NP)'))])
print('gbx intended shape:', [(str(r.cat), r.op_string) for r in en.apply_binary_rules(C('((S[dcl]\\NP)/PP)/NP'), C('(S\\NP)\\(S\\NP)'))])
j=lambda s: C(s)
x=j('S[mod=nm,form=base,fin=f]/S[mod=nm,form=cont,fin=f]'); y=j('S[mod=nm,form=cont,fin=f]\\NP[case=ga,mod=nm,fin=f]')
print('ja Bx1:', [(str(r.cat), r.op_symbol) for r in ja.apply_binary_rules(x,y)])
ur={j('S[mod=adn,form=base,fin=f]'):[j('NP[case=nc,mod=X1,fin=X2]/NP[case=nc,mod=X1,fin=X2]')], j('S[mod=adv,form=cont,fin=f]\\NP[case=ga,mod=nm,fin=f]'):[j('S/S')], j('NP'):[j('S/S')]}
for k in ur:
    try: print('ja unary', k, [(r.op_string) for r in ja.apply_unary_rules(k, ur)])
    except Exception as e: print('ja unary', k, 'EXC', repr(e))
print('conj:', [(str(r.cat), r.op_string) for r in en.apply_binary_rules(C('conj'), C('NP\\NP'))])
print('N/NP bx:', [(str(r.cat), r.op_string) for r in en.apply_binary_rules(C('NP/N'), C('S\\NP'))], [(str(r.cat), r.op_string) for r in en.apply_binary_rules(C('NP[nb]/N'), C('S\\NP[conj]'))])
import numpy
a=numpy.ones(3,dtype=numpy.bool); a[[]]=0; print('empty idx ok', a)
print(hash(C('S/NP'))==hash(C('(S/NP)')), C('S/NP')==C('(S/NP)'), C('S[dcl]')=='S[dcl]', {C('S/NP'):1}[C('<S/NP>')])
for t in ['S/NP/NP','(S/NP/NP)\\X','A/(B/C/D)', 'S /  NP', '((S))/<NP>', 'S[ dcl ]/NP','(S/NP']:
    try: print(repr(t),'->',Category.parse(t))
    except BaseException as e: print(repr(t),'EXC',type(e).__name__,e)
