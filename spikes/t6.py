import sys; sys.path.insert(0,'/tmp/explore'); sys.path.insert(0,'/repo')
import stubs; stubs.install()
import warnings; warnings.simplefilter('ignore')
from lxml import etree
from depccg.cat import Category
from depccg.tree import Tree, ScoredTree
from depccg.types import Token
from depccg.printer.jigg_xml import to_jigg_xml
from depccg.grammar import en
from depccg.semantics.ccg2lambda.ccg2lambda_tools import build_ccg_tree, normalize_tokens
C=Category.parse
def leaf(w,c): return Tree.make_terminal(Token.of_word(w), C(c))
def binr(l,r,lang=en):
    x=lang.apply_binary_rules(l.cat,r.cat)[0]
    return Tree.make_binary(x.cat,l,r,x.op_string,x.op_symbol,x.head_is_left)
t = binr(binr(leaf('AT&T','NP'), binr(leaf('is-a','(S[dcl]\\NP)/NP'), Tree.make_unary(C('NP'), leaf('U.S.(x)!','N')))), leaf('.','.'))
x=to_jigg_xml([[ScoredTree(t,-1.0), ScoredTree(t,-2.0)]])
sent=x.xpath('//sentence')[0]
for ccg in sent.xpath('./ccg'):
    bt=build_ccg_tree(ccg)
    print(etree.tostring(bt,pretty_print=True).decode()[:900])
toks=normalize_tokens(sent.find('.//tokens'))
print([ (t.get('surf'),t.get('base')) for t in toks])
