import sys, os, tempfile; sys.path.insert(0,'/tmp/explore'); sys.path.insert(0,'/repo')
import stubs; stubs.install()
import warnings; warnings.simplefilter('ignore')
import logging; logging.disable(logging.CRITICAL)
from hypothesis import given, settings, strategies as st, seed, HealthCheck
exec(open('h1.py').read().split('@st.composite')[0].split("from oen import M")[1])
from oen import M
from depccg.cat import Category, Atom, Functor, UnaryFeature, TernaryFeature
from depccg.tree import Tree, ScoredTree
from depccg.types import Token
from depccg.printer import to_string
from depccg.printer.auto import auto_of
from depccg.printer.conll import conll_of
from depccg.tools.reader import read_auto
from depccg.utils import denormalize
special='()[]{}<>\'"/|&-.,!=#*_'
tokch=st.one_of(st.sampled_from(list(special)), st.characters(blacklist_categories=('Cc','Cs','Zs','Zl','Zp','Cn','Co'), blacklist_characters='\\    　﻿\x85'))
word=st.one_of(st.sampled_from(list('()[]{}<>')+['-LRB-','a(b','x)','<s>']), st.text(tokch,min_size=1,max_size=6))
def token(): return st.builds(lambda w,p,l: Token(word=w,pos=p,lemma=l,entity='O',chunk='XX'), word, st.one_of(st.just('NN'),word), word)
def trees():
    leaf=st.builds(lambda t,c: Tree.make_terminal(t,to_cat(c)), token(), cats('en'))
    def ext(ch):
        return st.one_of(st.builds(lambda c,k: Tree.make_unary(to_cat(c),k,'lex','<un>'), cats('en'), ch),
                         st.builds(lambda c,l,r,h: Tree.make_binary(to_cat(c),l,r,'fa','>',h), cats('en'), ch, ch, st.booleans()))
    return st.recursive(leaf, ext, max_leaves=6)
def snap(t):
    if t.is_leaf: return ('L',str(t.cat),t.token.get('pos'),denormalize(t.token['word']))
    return ('T',str(t.cat),len(t.children), t.head_is_left if len(t.children)==2 else None, tuple(snap(c) for c in t.children))
def snap2(t):
    if t.is_leaf: return ('L',str(t.cat),t.token.get('pos'),t.token['word'])
    return ('T',str(t.cat),len(t.children), t.head_is_left if len(t.children)==2 else None, tuple(snap2(c) for c in t.children))
import collections; cnt=collections.Counter(); fails=collections.Counter(); ex={}
@seed(int(os.environ.get('VERIF_SEED','1')))
@settings(max_examples=int(sys.argv[1]), database=None, deadline=None, suppress_health_check=list(HealthCheck))
@given(trees())
def test(t):
    cnt['n']+=1
    s=to_string([[ScoredTree(t,-1.0)]],format='auto')
    line=s.split('\n')[1]
    p=tempfile.mktemp(dir='/tmp/explore'); open(p,'w').write(s)
    try:
        try: rs=list(read_auto(p))
        except Exception as e:
            k=('read EXC',type(e).__name__); fails[k]+=1; ex.setdefault(k,line); return
        if len(rs)!=1: k=('count',len(rs)); fails[k]+=1; ex.setdefault(k,line); return
        r=rs[0]
        if snap2(r.tree)!=snap(t): k=('tree differs',); fails[k]+=1; ex.setdefault(k,(line,snap2(r.tree))); return
        if auto_of(r.tree)!=line: k=('reprint differs',); fails[k]+=1; ex.setdefault(k,(line,auto_of(r.tree))); return
        frag=' '.join(l.split('\t')[-1] for l in conll_of(t).split('\n'))
        if frag!=line: k=('conll frag',); fails[k]+=1; ex.setdefault(k,(line,frag)); return
        cnt['ok']+=1
    finally: os.unlink(p)
test(); print(cnt); 
for k,v in fails.items(): print(v,k,ex[k])
