import sys,re; sys.path.insert(0,'/repo')
from depccg.cat import Category
def strings(f): 
    txt=open(f'/repo/depccg/models/{f}.jsonnet').read()
    return [s.replace('\\\\','\\').replace("\\'","'") for s in re.findall(r"'((?:[^'\\]|\\.)*)'|\"((?:[^\"\\]|\\.)*)\"", txt) for s in [s[0] or s[1]]]
targets=set(Category.parse(s) for s in strings('targets.en'))
txt=open('/repo/depccg/models/cat_dict.en.jsonnet').read()
# entries: key: [ ... ],
n=0; missing={}; words=0
for m in re.finditer(r"^\s{4}(.+?): \[(.*)\],\s*$", txt, re.M):
    words+=1
    for s in re.findall(r"'((?:[^'\\]|\\.)*)'", m.group(2)):
        c=Category.parse(s.replace('\\\\','\\')); n+=1
        if c not in targets: missing[str(c)]=missing.get(str(c),0)+1
print('words',words,'cat occurrences',n,'not in targets.en:',len(missing), list(missing.items())[:10])
for f in ['targets.en','targets.en_rebank','targets.ja','seen_rules.en','seen_rules.en_rebank','seen_rules.ja','unary_rules.en','unary_rules.ja']:
    bad=[]
    for s in strings(f):
        c=Category.parse(s); t=str(c)
        if t!=s and '('+t+')'!=s: bad.append((s,t))
    print(f,len(strings(f)),'non-roundtrip',bad[:3])
