import sys, types, importlib.abc, importlib.machinery, json
STUB_ROOTS = {'six','scipy','depccg.chainer','chainer','allennlp','nltk','yaml','tqdm','spacy','janome','torch','cupy','overrides','google_drive_downloader','Cython','cython','jsonnet','_jsonnet'}
class _StubMeta(type):
    def __getattr__(cls, name):
        if name.startswith('__') and name.endswith('__'): raise AttributeError(name)
        return _make(name)
    def __call__(cls, *a, **k):
        # used as decorator factory or constructor: return identity decorator if single callable arg
        if len(a)==1 and not k and (isinstance(a[0], type) or callable(a[0])) : return a[0]
        return type.__call__(cls)
def _make(name):
    return _StubMeta(name, (), {'__init__': lambda self,*a,**k: None, '__call__': lambda self,*a,**k: (a[0] if a else None), '__getattr__': lambda self,n: _make(n)})
class StubModule(types.ModuleType):
    __all__ = []
    def __getattr__(self, name):
        if name.startswith('__') and name.endswith('__'): raise AttributeError(name)
        return _make(name)
class Finder(importlib.abc.MetaPathFinder, importlib.abc.Loader):
    def find_spec(self, fullname, path, target=None):
        if fullname.split('.')[0] in STUB_ROOTS or fullname.startswith('depccg.chainer') or fullname=='depccg.morpha':
            return importlib.machinery.ModuleSpec(fullname, self, is_package=True)
    def create_module(self, spec):
        m = StubModule(spec.name); m.__path__=[]; return m
    def exec_module(self, module): pass
def install():
    sys.meta_path.insert(0, Finder())
    import json as _j
    sj = types.ModuleType('simplejson'); sj.__dict__.update({k:getattr(_j,k) for k in ('dumps','loads','dump','load','JSONDecodeError')})
    sys.modules['simplejson']=sj
    t = types.ModuleType('tqdm'); t.tqdm = lambda it, **k: it; sys.modules['tqdm']=t
