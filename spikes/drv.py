import ctypes, numpy as np, itertools, random, sys
L = ctypes.CDLL('/tmp/explore/libshim.so')
RULECB = ctypes.CFUNCTYPE(ctypes.c_int, ctypes.c_uint, ctypes.c_uint, ctypes.c_void_p)
FINCB = ctypes.CFUNCTYPE(None, ctypes.c_void_p)
L.new_cache.restype = ctypes.c_void_p
L.del_cache.argtypes=[ctypes.c_void_p]
L.push_result.argtypes=[ctypes.c_void_p, ctypes.c_uint, ctypes.c_uint, ctypes.c_int]
L.run_parse.argtypes=[ctypes.c_void_p, ctypes.c_void_p, ctypes.c_uint, ctypes.c_void_p, ctypes.c_uint, RULECB, RULECB, FINCB, ctypes.c_void_p,
  ctypes.c_uint, ctypes.c_float, ctypes.c_float, ctypes.c_int, ctypes.c_uint, ctypes.c_uint, ctypes.c_uint]
for n,t in [('item_fin',ctypes.c_int),('item_cat',ctypes.c_uint),('item_left',ctypes.c_void_p),('item_right',ctypes.c_void_p),('item_in',ctypes.c_float),('item_out',ctypes.c_float),('item_start',ctypes.c_uint),('item_len',ctypes.c_uint),('item_head',ctypes.c_uint),('item_rule',ctypes.c_uint)]:
    getattr(L,n).restype=t; getattr(L,n).argtypes=[ctypes.c_void_p]

def parse(tag, dep, roots, binary, unary, head_left, num_tags, up=0.0, beta=1e-5, use_beta=False, prune=50, nbest=1, max_step=10**7):
    n = tag.shape[0]
    out=[]
    def tree(p):
        if L.item_fin(p):
            return ('FIN', L.item_in(p)+L.item_out(p), tree(L.item_left(p)))
        l=L.item_left(p); r=L.item_right(p)
        if not l and not r: return ('L', L.item_cat(p), L.item_start(p))
        if not r: return ('U', L.item_cat(p), tree(l))
        return ('B', L.item_cat(p), tree(l), tree(r))
    def fin(p): out.append(tree(p))
    def b(x,y,res):
        for i,c in enumerate(binary.get((x,y),[])): L.push_result(res,c,i,1 if head_left else 0)
        return 0
    def u(x,y,res):
        for i,c in enumerate(unary.get(x,[])): L.push_result(res,c,i,1)
        return 0
    cache=L.new_cache()
    rs=(ctypes.c_uint*len(roots))(*roots)
    tag=np.ascontiguousarray(tag,dtype=np.float32); dep=np.ascontiguousarray(dep,dtype=np.float32)
    st=L.run_parse(tag.ctypes.data, dep.ctypes.data, n, rs, len(roots), RULECB(b), RULECB(u), FINCB(fin), cache, num_tags, up, beta, int(use_beta), prune, nbest, max_step)
    L.del_cache(cache)
    return st,out

def brute(tag, dep, roots, binary, unary, head_left, up=0.0):
    n=tag.shape[0]; T=tag.shape[1]
    # chart[(i,j)] = dict cat -> list of (score, tree) ; head of span: leftmost if head_left else rightmost
    chart={}
    def close_unary(cell, allow):
        # cell: dict cat -> best score; apply unary acyclic closure
        if not allow: return
        changed=True
        while changed:
            changed=False
            for c,s in list(cell.items()):
                for r in unary.get(c,[]):
                    ns=s-up
                    if r not in cell or cell[r]<ns: cell[r]=ns; changed=True
    for i in range(n):
        cell={c: float(tag[i,c]) for c in range(T)}
        close_unary(cell, True)
        chart[(i,i+1)]=cell
    for ln in range(2,n+1):
        for i in range(0,n-ln+1):
            j=i+ln; cell={}
            for k in range(i+1,j):
                hl = i if head_left else k-1
                hr = k if head_left else j-1
                for x,sx in chart[(i,k)].items():
                    for y,sy in chart[(k,j)].items():
                        for r in binary.get((x,y),[]):
                            d = dep[hr, hl+1] if head_left else dep[hl, hr+1]
                            s=sx+sy+float(d)
                            if r not in cell or cell[r]<s: cell[r]=s
            close_unary(cell, ln!=n)
            chart[(i,j)]=cell
    h = 0 if head_left else n-1
    best=None
    for c,s in chart[(0,n)].items():
        if c in roots:
            t=s+float(dep[h,0])
            if best is None or t>best: best=t
    return best

def gen(rng):
    n=rng.randint(1,5); T=rng.randint(2,4); K=T+rng.randint(0,3)
    tag=np.array([[-rng.randint(0,64)/8 for _ in range(T)] for _ in range(n)],dtype=np.float32)
    dep=np.array([[-rng.randint(0,64)/8 for _ in range(n+1)] for _ in range(n)],dtype=np.float32)
    binary={}
    for x in range(K):
        for y in range(K):
            if rng.random()<0.5:
                binary[(x,y)]=[rng.randrange(K) for _ in range(rng.randint(1,2))]
    unary={}
    for x in range(K):
        if rng.random()<0.3:
            unary[x]=[rng.randrange(x+1,K) for _ in range(1)] if x+1<K else []
    roots=[c for c in range(K) if rng.random()<0.5] or [0]
    return tag,dep,roots,binary,unary,rng.random()<0.5, T, rng.choice([0.0,0.125,0.5])
if __name__=='__main__':
    rng=random.Random(int(sys.argv[1]) if len(sys.argv)>1 else 0)
    bad=0; fails=0; N=int(sys.argv[2]) if len(sys.argv)>2 else 3000
    for it in range(N):
        tag,dep,roots,binary,unary,hl,T,up=gen(rng)
        st,out=parse(tag,dep,roots,binary,unary,hl,T,up=up)
        bs=brute(tag,dep,roots,binary,unary,hl,up=up)
        got = out[0][1] if st==0 else None
        if st!=0: fails+=1
        if (got is None)!=(bs is None) or (got is not None and abs(got-bs)>1e-4):
            bad+=1
            if bad<=3:
                print("MISMATCH", it, "n",tag.shape[0],"got",got,"best",bs, "hl",hl,"up",up); print(tag,dep,roots,binary,unary, out)
    print("cases",N,"fails",fails,"mismatch",bad)
