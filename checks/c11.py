"""C11 — batch results align with inputs and do not depend on batch history (stateful)."""
import hypothesis
from hypothesis import strategies as st
from hypothesis.stateful import RuleBasedStateMachine, initialize, rule, run_state_machine_as_test

from vlib import gen_gram, gen_sent, native, oracle_chart as oc, parser_checks as pc, runner
from vlib.tape import Tape, tapes

PROPERTY = 'C11'
RULE = ('Hypothesis rule-based state machines: state = a pool of 5-10 sentences (parseable, unparseable, over-length, '
        'heavy score ties) over one category list and one grammar (synthetic tables of every head mode); rules = parse a '
        'drawn sub-sequence / permutation (repeats allowed) with drawn processes 1-4, max_chunk_size 1-20, the '
        'single-sentence calling form, and a step budget set high or exactly at / one below the number of agenda pops a '
        'pool sentence needs (measured through the hook); malformed calls (wrong tag columns / rows / dep shape, length '
        'mismatch, mismatch only in the last sentence, list-vs-single mix). Oracle: one result list per sentence in '
        'order, each identical (trees incl. labels and flags, exact scores) to the memoised result of parsing that '
        'sentence alone under the same configuration; alone results are tied to ground truth (over-length => '
        'placeholder; budget P-1 => failure, P => the unbounded result; chart-infeasible <=> placeholder); malformed '
        'calls raise before any grammar callback. Plus a long-history scenario: one call over 600-800 categories whose '
        'rule-application cache grows past 300k entries (thorough: past 1M), every sentence compared with itself parsed '
        'alone. non-trivial = a batch with >=3 sentences containing a failure among '
        'successes in an order different from pool order, chunked or after the category table grew; distinct by step digest')

import multiprocessing
import multiprocessing.pool
import time as _time


def _delayed(delay, func, args, kwds):
    _time.sleep(delay)
    return func(*args, **kwds)


class ReversingPool(multiprocessing.pool.Pool):
    """a worker pool whose earlier tasks start later, so that chunks complete in reverse order: the harness owns
    the schedule of the multi-process branch instead of hoping for an unlucky one (the code under test is unmodified;
    it only receives this class as its Pool)"""

    def __init__(self, processes=None, *a, **k):
        k['context'] = multiprocessing.get_context('fork')
        super().__init__(processes, *a, **k)
        self._k = 0

    def apply_async(self, func, args=(), kwds={}, callback=None, error_callback=None):
        self._k += 1
        delay = max(0.0, 0.45 - 0.15 * self._k)
        return super().apply_async(_delayed, (delay, func, args, kwds), {}, callback, error_callback)


BIG = 20000     # 'high' step budget: bounds the n-best search, which explores every derivation when fewer than nbest exist


class World:
    """the generated state of one machine + memoised alone-results"""

    def __init__(self, init_hex):
        t = Tape(bytes.fromhex(init_hex))
        self.init_hex = init_hex
        nsent = t.int(5, 10)
        nbest_max = t.pick([1, 1, 2, 3])
        small = nbest_max > 1
        case = gen_sent.t_table_case(t, head_modes=('left', 'right', 'mixed'), n_max=4 if small else 5,
                                     T_max=3 if small else 4, K_max=5 if small else 7,
                                     nbest_max=nbest_max, numerics=('dyadic', 'dyadic', 'logsoftmax'), beam='mild',
                                     multi_label=t.chance(100), n_sentences=nsent)
        T = len(case['tags'])
        for k, s in enumerate(case['sentences']):
            if t.chance(60):
                n = len(s['words'])
                case['sentences'][k] = gen_sent.t_sentence(t, n, T, 'dyadic', prefix=f's{k}w', ties=True)
        case['config']['max_length'] = t.pick([250, 250, 250, 3, 2])
        self.case = case
        self.grammar = gen_gram.make_grammar(case['grammar'])
        from depccg.cat import Category
        # one category list / root list object reused by every call, as a real caller does
        self.cats = [Category.parse(c) for c in case['tags']]
        self.roots = [Category.parse(c) for c in case['roots']]
        if len(set(case['roots'])) < len(case['roots']):
            # a root named twice: fine today; if the library refuses it, the pool is parsed without the repetition
            try:
                native.run_parser(dict(case, config=dict(case['config'], max_step=BIG)), self.grammar,
                                  sentences=case['sentences'][:1], processes=1, max_chunk_size=20)
            except runner.OutOfDomain:
                case['roots'] = list(dict.fromkeys(case['roots']))
                self.roots = [Category.parse(c) for c in case['roots']]
            except Exception:
                pass
        self.alone = {}
        self.pops = {}

    def cfg(self, max_step):
        return dict(self.case['config'], max_step=max_step)

    def pops_needed(self, idx):
        if idx not in self.pops:
            one = dict(self.case, config=self.cfg(BIG))
            with native.PopTrace() as tr:
                native.run_parser(one, self.grammar, sentences=[self.case['sentences'][idx]],
                                  processes=1, max_chunk_size=20)
            self.pops[idx] = len(tr.pops) if tr.enabled else None
        return self.pops[idx]

    def alone_result(self, idx, max_step):
        key = (idx, max_step)
        if key not in self.alone:
            one = dict(self.case, config=self.cfg(max_step))
            res, docs, faults = native.run_parser(one, self.grammar, sentences=[self.case['sentences'][idx]],
                                                  processes=1, max_chunk_size=20)
            self.alone[key] = [(native.snap(st_.tree), float(st_.score)) for st_ in res[0]] if len(res) == 1 else None
        return self.alone[key]


def is_ph(snaps):
    return (snaps is not None and len(snaps) == 1 and snaps[0][0][0] == 'L' and snaps[0][0][2].get('word') == 'FAILED'
            and snaps[0][1] == float('-inf'))


def step_budget(world, step):
    b = step.get('budget')
    if not b:
        return BIG
    p = world.pops_needed(b[0])
    if p is None:
        return BIG
    return max(1, p + b[1])


@runner.guarded(PROPERTY)
def check_step(world, step, info=None):
    """execute one step against the real parser and judge it"""
    import depccg.parsing
    from depccg.cat import Category
    from depccg.types import ScoringResult
    fails = []

    def bad(key, msg):
        fails.append((f'{PROPERTY}/{key}', msg))
    case = world.case
    sents = case['sentences']
    cats = world.cats
    roots = world.roots
    if step['kind'] == 'malformed':
        idxs = step['batch']
        docs = [native.tokens_of(sents[i]) for i in idxs]
        scores = [ScoringResult(*native.arrays(sents[i])) for i in idxs]
        import numpy as np
        which = step['defect']
        j = len(idxs) - 1 if step.get('last', True) else 0
        tag, dep = scores[j]
        if which == 'tag-columns':
            scores[j] = ScoringResult(np.ascontiguousarray(np.hstack([tag, tag[:, :1]])), dep)
        elif which == 'tag-rows':
            scores[j] = ScoringResult(np.ascontiguousarray(np.vstack([tag, tag[:1]])), dep)
        elif which == 'dep-shape':
            scores[j] = ScoringResult(tag, np.ascontiguousarray(dep[:, :-1]))
        elif which == 'length-mismatch':
            scores = scores[:-1] if len(scores) > 1 else scores + scores
        elif which == 'list-vs-single':
            scores = scores[0]
            if len(docs) == 1:
                docs = docs + docs
        elif which == 'token-count':
            docs[j] = docs[j] + docs[j][:1]
        before = world.grammar.calls
        cfg = world.cfg(BIG)
        cfg.update(processes=step['processes'], max_chunk_size=step['max_chunk_size'])
        try:
            depccg.parsing.run(docs, scores, cats, roots, world.grammar.binary, world.grammar.unary, **cfg)
            bad(f'malformed-accepted/{which}', f'inputs with defect {which} (in sentence {j} of {len(idxs)}) were parsed')
        except Exception:
            pass
        if world.grammar.calls != before:
            bad(f'parsed-before-rejecting/{which}', f'grammar callbacks ran before the call with defect {which} was rejected')
        return fails

    idxs = step['batch']
    max_step = step_budget(world, step)
    cfg = world.cfg(max_step)
    cfg.update(processes=step['processes'], max_chunk_size=step['max_chunk_size'])
    docs = [native.tokens_of(sents[i]) for i in idxs]
    scores = [ScoringResult(*native.arrays(sents[i])) for i in idxs]
    single_form = step.get('single_form') and len(idxs) == 1
    rt = native.setup()
    del rt.unraisable[:]
    del rt.faults[:]
    import contextlib
    native.check_harness_faults(reset=True)
    pool_ctx = contextlib.nullcontext()
    if step.get('schedule') == 'reversed':
        pool_ctx = native.pool_installed(ReversingPool)
    elif step.get('schedule') == 'sync':
        pool_ctx = native.pool_installed(native.PicklingSyncPool)
    try:
        with pool_ctx:
            if single_form:
                res = depccg.parsing.run(docs[0], scores[0], cats, roots, world.grammar.binary, world.grammar.unary, **cfg)
            else:
                res = depccg.parsing.run(docs, scores, cats, roots, world.grammar.binary, world.grammar.unary, **cfg)
    except Exception as ex:
        native.check_harness_faults()
        if single_form:
            # the one-sentence calling form is a convenience the statement (about batches) does not mention: if the
            # same sentence goes through as a one-element batch, a refusal of the bare form decides nothing
            try:
                depccg.parsing.run(docs, scores, cats, roots, world.grammar.binary, world.grammar.unary, **cfg)
                return fails
            except Exception:
                pass
        bad(f'raises/{type(ex).__name__}', f'batch {idxs} (processes={step["processes"]}, '
            f'max_chunk_size={step["max_chunk_size"]}, max_step={max_step}): {type(ex).__name__}: {ex}')
        return fails
    native.check_harness_faults()
    for f in list(rt.unraisable) + list(rt.faults):
        bad('fault', f'batch {idxs}: {f}')
    if [str(c) for c in cats] != case['tags'] or [str(c) for c in roots] != case['roots']:
        bad('mutates-arguments', f'the caller\'s category / root list was changed by the call (now {len(cats)} categories)')
        del cats[len(case['tags']):]
    if single_form and isinstance(res, list) and res and not isinstance(res[0], list):
        res = [res]         # (the one-sentence calling form may hand back that sentence's list itself)
    if not isinstance(res, list) or len(res) != len(idxs):
        bad('result-count', f'batch of {len(idxs)} sentences returned {len(res) if isinstance(res, list) else res!r} result lists')
        return fails
    nfail = 0
    for pos, idx in enumerate(idxs):
        got = [(native.snap(st_.tree), float(st_.score)) for st_ in res[pos]]
        want = world.alone_result(idx, max_step)
        if is_ph(got):
            nfail += 1
        for k, (g, _) in enumerate(got):
            leaves = _leaf_words(g)
            if leaves != sents[idx]['words'] and not is_ph(got):
                bad('misaligned', f'position {pos} of batch {idxs} holds a tree over words {leaves}, input words '
                    f'{sents[idx]["words"]}')
                break
        if got != want:
            kind = 'placeholder-mismatch' if is_ph(got) != is_ph(want) else \
                ('score-differs' if [g[0] for g in got] == [w[0] for w in (want or [])] else 'tree-differs')
            bad(f'history-dependent/{kind}', f'sentence {idx} at position {pos} of batch {idxs} (processes='
                f'{step["processes"]}, max_chunk_size={step["max_chunk_size"]}, max_step={max_step}) gives '
                f'{_brief(got)}; parsed alone it gives {_brief(want)}')
    # alone results tied to ground truth
    for idx in set(idxs):
        s = sents[idx]
        n = len(s['words'])
        want = world.alone_result(idx, max_step)
        if n > case['config']['max_length']:
            if not is_ph(want):
                bad('over-length-parsed', f'sentence {idx} has {n} tokens > max_length {case["config"]["max_length"]} but was parsed')
            continue
        big = world.alone_result(idx, BIG)
        p = world.pops_needed(idx)
        if p is not None and case['config']['nbest'] == 1 and not is_ph(big):
            if max_step >= p and want != big:
                bad('budget/sufficient-but-differs', f'sentence {idx} needs {p} pops; with max_step={max_step} the result differs '
                    'from the unbounded one')
            if max_step < p and not is_ph(want):
                bad('budget/insufficient-but-parsed', f'sentence {idx} needs {p} pops; with max_step={max_step} it still parsed')
        if case['head_mode'] in ('left', 'right'):
            ev = _feasibility(world, idx)
            if ev is not None:
                if ev and is_ph(big) and p is not None and p < BIG:
                    # (a search that used the whole 'high' budget is inconclusive, not a failure to find a parse)
                    bad('failed-but-parse-exists', f'sentence {idx} alone: placeholder although a derivation exists')
                if not ev and not is_ph(big):
                    bad('parsed-but-no-derivation', f'sentence {idx} alone: parsed although no derivation exists')
    if info is not None:
        info.update(nfail=nfail, size=len(idxs), chunked=len(idxs) > step['max_chunk_size'],
                    reordered=idxs != sorted(idxs), budget=max_step != BIG)
    return fails


def _feasibility(world, idx):
    key = ('feas', idx)
    if key in world.alone:
        return world.alone[key]
    from depccg.cat import Category
    case = world.case
    cfg = case['config']
    s = case['sentences'][idx]
    tags = [Category.parse(c) for c in case['tags']]
    roots = {Category.parse(c) for c in case['roots']}
    must, may = [], []
    for row in s['tag']:
        mu, ma = oc.admitted([float(v) for v in row], cfg['pruning_size'], cfg['beta'], cfg['use_beta'])
        must.append(mu)
        may.append(ma)
    if must != may:
        world.alone[key] = None
        return None
    memo = oc.Memo(gen_gram.make_grammar(case['grammar']))
    leaf = [{tags[c]: float(s['tag'][i][c]) for c in may[i]} for i in range(len(s['words']))]
    r = oc.chart(len(s['words']), leaf, memo, roots, s['dep'], float(cfg['unary_penalty']), case['head_mode'] == 'left')
    world.alone[key] = r['feasible']
    return r['feasible']


def _leaf_words(snap):
    if snap[0] == 'L':
        return [snap[2].get('word')]
    if snap[0] == 'U':
        return _leaf_words(snap[4])
    return _leaf_words(snap[5]) + _leaf_words(snap[6])


def _brief(res):
    if res is None:
        return 'no result list'
    if is_ph(res):
        return 'the failure placeholder'
    return f'{len(res)} tree(s) with scores {[r[1] for r in res]} and root(s) {[r[0][1] for r in res]}'


def build_step(data, world, allow_mp):
    t = Tape(data)
    npool = len(world.case['sentences'])
    kind = t.weighted([(6, 'batch'), (1, 'malformed')])
    size = t.weighted([(2, 1), (2, 2), (3, 3), (3, 4), (2, 6), (1, 8)])
    idxs = [t.below(npool) for _ in range(size)]
    mcs = t.pick([20, 20, 1, 2, 3, 5])
    step = {'kind': kind, 'batch': idxs, 'processes': t.int(1, 4), 'max_chunk_size': mcs}
    if not allow_mp and len(idxs) > mcs:
        # the budget of real worker pools (1 s each) is used up: the multi-process branch is served in-process by
        # a pool that pickles arguments and results; it costs nothing, so any number of processes can be asked for
        step['schedule'] = 'sync'
        step['processes'] = t.pick([1, 2, 3, 4, 5, 7, 8, 11, 13, 16])
    if kind == 'malformed':
        step['defect'] = t.pick(['tag-columns', 'tag-rows', 'dep-shape', 'length-mismatch', 'list-vs-single', 'token-count'])
        step['last'] = t.chance(180)
        step['max_chunk_size'] = max(mcs, len(idxs) + 1)
        return step
    step['single_form'] = t.chance(128)
    if len(idxs) > step['max_chunk_size'] and step.get('schedule') is None and t.chance(150):
        step['schedule'] = 'reversed'
        step['processes'] = max(2, step['processes'])
    if t.chance(90):
        step['budget'] = [t.pick(idxs), t.pick([-1, 0])]
    return step


# ---- long history: one call whose rule-application cache grows to hundreds of thousands of entries

def long_case(seed_, quick):
    """the batch is sized by cache entries, not sentences: every sentence carries two adjacent 'noisy' tokens, each
    with a block of 32 inert categories (categories no rule combines) scored between the sentence's good tags and
    the tags its parse finally needs.  The search builds the good parts first, then asks the grammar about all
    32 x 32 inert pairs (cached as empty results), then completes the parse: well over 1000 new entries per sentence,
    and the finished tree uses entries made both before and after them."""
    import random
    rng = random.Random(seed_)
    K0 = rng.randrange(400, 600)
    nb = 20 if quick else 36
    spec = {'kind': 'mod', 'K': K0 + 32 * nb + 1, 'K0': K0, 'a': rng.choice([7, 11, 17]), 'b': rng.choice([13, 19, 23]),
            'c': rng.randrange(K0), 'p': 3, 'q': 5, 'm': 11, 'd': rng.choice([6, 7, 8]), 'u': rng.choice([0, 0, 9]),
            'head_left': rng.random() < 0.5}
    return {'mode': 'long', 'seed': seed_, 'grammar': spec, 'blocks': nb, 'N': 30 if quick else 110,
            'fail_every': rng.choice([7, 11])}


LONG_CFG = dict(unary_penalty=0.125, beta=0.00001, use_beta=True, pruning_size=40, nbest=1, max_step=BIG,
                max_length=250)


def long_inputs(case):
    import random
    import numpy as np
    from depccg.types import ScoringResult, Token
    rng = random.Random(case['seed'] * 7919 + 1)
    K, K0, nb = case['grammar']['K'], case['grammar']['K0'], case['blocks']
    docs, scores = [], []
    for k in range(case['N']):
        unparseable = k % case['fail_every'] == case['fail_every'] - 1
        if unparseable:
            # a one-token sentence whose admitted tags are inert categories: no root among them
            n, noisy = 1, ()
        else:
            n = rng.randint(4, 6)
            at = rng.randrange(0, n - 1)
            noisy = (at, at + 1)
        tag = np.full((n, K), -40.0, dtype=np.float32)
        pair = k % (nb * nb)
        for i in range(n):
            if unparseable:
                for c in rng.sample(range(K0, K), 8):
                    tag[i, c] = -rng.randrange(0, 9) / 8
            elif i in noisy:
                block = (pair // nb) if i == noisy[0] else (pair % nb)
                # the best tag of a noisy token is an inert decoy, so the block below it is explored only after the
                # derivations over the good tokens (which cost less than 1.25) have been built and cached
                tag[i, K - 1] = 0.0
                for c in range(K0 + 32 * block, K0 + 32 * block + 32):
                    tag[i, c] = -(10 + rng.randrange(0, 4)) / 8
                for c in rng.sample(range(K0), 6):
                    tag[i, c] = -(24 + rng.randrange(0, 9)) / 8
            else:
                for c in rng.sample(range(K0), 6):
                    tag[i, c] = -rng.randrange(0, 9) / 8
                tag[i, rng.randrange(K0)] = 0.0
        dep = np.array([[-rng.randrange(0, 5) / 8 for _ in range(n + 1)] for _ in range(n)], dtype=np.float32)
        docs.append([Token.of_word(f's{k}w{i}') for i in range(n)])
        scores.append(ScoringResult(np.ascontiguousarray(tag), np.ascontiguousarray(dep)))
    return docs, scores


@runner.guarded(PROPERTY)
def check_long(case, info=None):
    """a batch of N sentences over hundreds of categories parsed in one call (single process, one chunk) against each
    sentence parsed on its own; every fail_every-th sentence has no parse, so failures sit among successes"""
    import depccg.parsing
    fails = []
    g = gen_gram.make_grammar(case['grammar'])
    cats = list(g.cats)
    roots = [c for i, c in enumerate(g.cats) if i % 2 == 0 and i < case['grammar']['K0']]
    docs, scores = long_inputs(case)
    cfg = dict(LONG_CFG)
    rt = native.setup()
    del rt.unraisable[:]
    del rt.faults[:]
    try:
        res = depccg.parsing.run(docs, scores, cats, roots, g.binary, g.unary, processes=1,
                                 max_chunk_size=len(docs) + 1, **cfg)
    except Exception as ex:
        return [(f'{PROPERTY}/long/raises/{type(ex).__name__}', f'batch of {len(docs)} sentences over '
                 f'{len(cats)} categories: {type(ex).__name__}: {ex}')]
    entries = g.calls
    for f in list(rt.unraisable) + list(rt.faults):
        fails.append((f'{PROPERTY}/long/fault', f'batch of {len(docs)} sentences: {f}'))
    if len(res) != len(docs):
        return fails + [(f'{PROPERTY}/long/result-count', f'{len(docs)} sentences, {len(res)} result lists')]
    nparsed = 0
    for k in range(len(docs)):
        got = [(native.snap(st_.tree), float(st_.score)) for st_ in res[k]]
        one = depccg.parsing.run([docs[k]], [scores[k]], cats, roots, g.binary, g.unary, processes=1,
                                 max_chunk_size=20, **cfg)
        want = [(native.snap(st_.tree), float(st_.score)) for st_ in one[0]]
        nparsed += not is_ph(got)
        if got != want:
            kind = 'placeholder-mismatch' if is_ph(got) != is_ph(want) else 'tree-or-score-differs'
            fails.append((f'{PROPERTY}/long/history-dependent/{kind}', f'sentence {k} of a batch of {len(docs)} over '
                          f'{len(cats)} categories gives {_brief(got)}; parsed alone it gives {_brief(want)}'))
            if len(fails) > 3:
                break
    if info is not None:
        info.update(entries=entries, parsed=nparsed, size=len(docs))
    return fails


# ---- chunking sweep: batch size x process count, through the multi-process branch served in-process

@runner.guarded(PROPERTY)
def check_chunking(n, processes):
    """n one-word sentences (each its own word, a one-category grammar) with max_chunk_size 1: the call takes the
    multi-process branch for every n >= 2; one result list per sentence, in order"""
    import numpy as np
    import depccg.parsing
    from depccg.cat import Category
    from depccg.types import ScoringResult, Token
    cat = Category.parse('A')
    docs = [[Token.of_word(f'w{k}')] for k in range(n)]
    scores = [ScoringResult(np.zeros((1, 1), dtype=np.float32), np.zeros((1, 2), dtype=np.float32)) for _ in range(n)]
    try:
        with native.pool_installed(native.PicklingSyncPool):
            res = depccg.parsing.run(docs, scores, [cat], [cat], _no_rules, _no_rules1, processes=processes,
                                     max_chunk_size=1, unary_penalty=0.125, beta=0.00001, use_beta=False, pruning_size=5,
                                     nbest=1, max_step=1000, max_length=250)
    except Exception as ex:
        return [(f'{PROPERTY}/chunking/raises/{type(ex).__name__}', f'{n} sentences, processes={processes}: '
                 f'{type(ex).__name__}: {ex}')]
    if not isinstance(res, list) or len(res) != n:
        return [(f'{PROPERTY}/chunking/result-count', f'{n} sentences, processes={processes}: '
                 f'{len(res) if isinstance(res, list) else res!r} result lists')]
    words = [r[0].tree.leaves[0].token.get('word') if len(r) == 1 else None for r in res]
    if words != [f'w{k}' for k in range(n)]:
        bad = next(k for k in range(n) if words[k] != f'w{k}')
        return [(f'{PROPERTY}/chunking/misaligned', f'{n} sentences, processes={processes}: position {bad} holds the '
                 f'result of {words[bad]!r}')]
    return []


def _no_rules(x, y):
    return []


def _no_rules1(x):
    return []


def replay(case):
    native.setup()
    if case.get('mode') == 'chunking':
        return check_chunking(case['n'], case['processes'])
    if case.get('mode') == 'long':
        return check_long(case)
    world = World(case['init'])
    fails = []
    for step in case['steps']:
        fails += check_step(world, step)
    return fails


def _shard(ctx, shard, nshards):
    native.setup()
    n_long = ctx.scale(1, 2)
    if shard < nshards - n_long:
        # every (batch size, process count) pair up to the bounds, dealt over the ordinary shards
        k = 0
        for n in range(2, ctx.scale(72, 260) + 1):
            for p in list(range(1, 18)) + [24, 32, 64]:
                k += 1
                if k % (nshards - n_long) != shard:
                    continue
                fails = check_chunking(n, p)
                ctx.case(['chunking', n, p], n > p > 1 and n % p != 0, cls='chunking-sweep')
                ctx.report_direct(fails, {'mode': 'chunking', 'n': n, 'processes': p})
    if shard >= nshards - ctx.scale(1, 2):
        case = long_case(ctx.seed * 16 + shard, ctx.quick)
        info = {}
        fails = check_long(case, info)
        ctx.notes[f'long_history_cache_entries_seed{case["seed"]}'] = info.get('entries')
        ctx.case(['long', case['seed']], info.get('parsed', 0) > 0 and (info.get('entries') or 0) >= 1 << 17,
                 cls='long-history', sample={'long_history': {k: case[k] for k in ('seed', 'N', 'blocks')},
                                             'categories': case['grammar']['K'],
                                             'cache_entries': info.get('entries'), 'parsed': info.get('parsed')})
        ctx.report_direct(fails, case)
        return
    mp_budget = [ctx.scale(2, 12)]
    n_machines = ctx.scale(260, 600)

    class Machine(RuleBasedStateMachine):
        def __init__(self):
            super().__init__()
            self.world = None
            self.steps = []

        @initialize(data=tapes(2500))
        def init(self, data):
            self.world = World(data.hex())
            self.steps = []

        @rule(data=tapes(48))
        def step(self, data):
            if self.world is None:
                return
            allow_mp = mp_budget[0] > 0
            stp = build_step(data, self.world, allow_mp)
            if stp['kind'] == 'batch' and len(stp['batch']) > stp['max_chunk_size'] and stp.get('schedule') != 'sync':
                mp_budget[0] -= 1
                ctx.notes['multi_process_calls'] = ctx.notes.get('multi_process_calls', 0) + 1
            self.steps.append(stp)
            info = {}
            fails = check_step(self.world, stp, info)
            nontriv = (info.get('size', 0) >= 3 and 0 < info.get('nfail', 0) < info.get('size', 0)
                       and info.get('reordered', False))
            cls = stp['kind'] + ('/' + stp['defect'] if stp['kind'] == 'malformed' else
                                 ('/chunked-multiprocess' if info.get('chunked') else '')
                                 + ('/reversed-completion-order' if stp.get('schedule') == 'reversed' else '')
                                 + ('/in-process-pickling-pool' if stp.get('schedule') == 'sync' and info.get('chunked') else '')
                                 + ('/budget' if info.get('budget') else '')
                                 + ('/single-form' if stp.get('single_form') and len(stp['batch']) == 1 else '')
                                 + ('/mixed-failures' if 0 < info.get('nfail', 0) < info.get('size', 0) else ''))
            hist = {'init': self.world.init_hex, 'steps': list(self.steps)}
            ctx.case([self.world.init_hex, len(self.steps), stp], nontriv, cls=cls,
                     sample={'step': stp, 'head_mode': self.world.case['head_mode'],
                             'pool_sizes': [len(s['words']) for s in self.world.case['sentences']],
                             'max_length': self.world.case['config']['max_length'],
                             'nbest': self.world.case['config']['nbest']})
            ctx.report(fails, hist)

    def factory():
        def test():
            run_state_machine_as_test(
                hypothesis.seed(runner.hseed(ctx, 11))(Machine),
                settings=runner.hsettings(n_machines, stateful_step_count=12))
        return test
    ctx.hypothesis(factory)


def run(ctx):
    native.setup()       # translate + compile once, before the shard processes fork
    n = ctx.scale(8, 16) + ctx.scale(1, 2)      # the last shard(s) run the long-history scenario
    ctx.shards(_shard, n, n)
    return RULE, 'exploration', [
        'OS scheduling of worker processes is not controlled; results are joined in task order by the code under test',
        'the multi-process branch sleeps 1 s per call, so its number of calls is bounded (see multi_process_calls)',
        'empty sentences and duplicate categories are outside every caller\'s preconditions and not generated',
        'Cython semantics of parsing.pyx are emulated by the pyxlite translator']
