"""C10 — n-best results are the k best distinct derivations, best first."""
from hypothesis import given, seed

from vlib import gen_sent, native, oracle_chart as oc, parser_checks as pc, runner
from vlib.tape import Tape, tapes

PROPERTY = 'C10'
RULE = ('small sentences (n <= 4 quick / 5 thorough) over head-uniform synthetic tables (several labelled results per '
        'pair, acyclic unary rules) and small real-grammar lexicons, k = 1..8, beam off; oracle = enumeration of ALL '
        'derivations with labels (cap 20000, larger cases discarded and counted): result size = min(k, #derivations), '
        'trees pairwise different, scores non-increasing and equal as a multiset to the k largest of the enumeration, '
        'every tree valid (C02 predicate) and correctly scored (C09 predicate), first score = 1-best answer; '
        'non-trivial = #derivations > k >= 2 and the k-th and (k+1)-th scores differ; distinct by case digest')


@runner.guarded(PROPERTY)
def check_case(case, info=None):
    ev = pc.prepare(case)
    fails = []
    if not ev.beam_exact:
        # ties at the pruning boundary: the admitted tag set is not determined by the statement
        if info is not None:
            info['discarded'] = True
        return []
    k = case['config']['nbest']
    head_left = ev.head_mode == 'left'
    try:
        # enumerate first: sentences too large to enumerate are never handed to the n-best search
        allv = oc.enumerate_derivations(ev.n, pc.leaf_scores(ev, ev.may), ev.memo, ev.roots, ev.sent['dep'],
                                        float(ev.cfg['unary_penalty']), head_left)
    except oc.TooMany:
        if info is not None:
            info['discarded'] = True
        return []
    pc.execute(ev, case)
    if ev.exception is not None:
        return [(f'{PROPERTY}/parser-raises/{type(ev.exception).__name__}', str(ev.exception))]
    total = len(allv)
    if info is not None:
        info.update(n=ev.n, total=total, k=k,
                    gap=(total > k and allv[k - 1][0] != allv[k][0]))
    fails += [(f.replace('C10/', 'C10/valid/', 1), m) for f, m in pc.validity_fails(ev, PROPERTY)]
    fails += [(f.replace('C10/', 'C10/scored/', 1), m) for f, m in pc.score_fails(ev, PROPERTY)]
    if total == 0:
        if not ev.placeholder:
            fails.append((f'{PROPERTY}/parsed-but-no-derivation', 'trees returned although no derivation exists'))
        return fails
    if ev.placeholder:
        fails.append((f'{PROPERTY}/failed-but-parse-exists', f'{total} derivations exist, placeholder returned'))
        return fails
    trees = ev.trees
    want_n = min(k, total)
    if len(trees) != want_n:
        fails.append((f'{PROPERTY}/count', f'asked for {k}, {total} derivations exist, got {len(trees)} trees'))
    snaps = [repr(native.snap(st.tree)) for st in trees]
    if len(set(snaps)) != len(snaps):
        fails.append((f'{PROPERTY}/duplicate-trees', 'the same derivation is returned more than once'))
    got = [float(st.score) for st in trees]
    if any(got[i] < got[i + 1] and not pc.close(got[i], got[i + 1], ev.numeric) for i in range(len(got) - 1)):
        fails.append((f'{PROPERTY}/order', f'scores not in non-increasing order: {got}'))
    want = [s for s, _ in allv[:len(got)]]
    if not all(pc.close(a, b, ev.numeric) for a, b in zip(sorted(got, reverse=True), want)):
        fails.append((f'{PROPERTY}/topk-scores', f'returned scores {got}; the {len(got)} largest scores over all '
                      f'{total} derivations are {want}'))
    # every sentence of a call gets the same answer: the sentence repeated R times in one call, under the library's
    # default step budget (only when k derivations exist, so that the n-best search stops at the k-th goal)
    R = int(case.get('repeat') or 0)
    if R and total >= k and not fails:
        caseR = dict(case, config=dict(case['config'], max_step=10000000))
        try:
            resR, _, _ = native.run_parser(caseR, ev.grammar, sentences=[ev.sent] * R, max_chunk_size=R + 1)
        except Exception as ex:
            resR = None
            fails.append((f'{PROPERTY}/repeated-in-one-call/raises/{type(ex).__name__}', f'{R} copies in one call: {ex}'))
        if resR is not None:
            for pos, r in enumerate(resR):
                if [repr(native.snap(st.tree)) for st in r] != snaps or [float(st.score) for st in r] != got:
                    fails.append((f'{PROPERTY}/repeated-in-one-call/differs',
                                  f'copy {pos + 1} of {R} in one call (k={k}) gives {len(r)} tree(s) with scores '
                                  f'{[float(st.score) for st in r]}; the sentence alone gives {got}'))
                    break
        if info is not None:
            info['repeated'] = R
    # the first one is the 1-best answer's score
    case1 = dict(case, config=dict(case['config'], nbest=1))
    ev1 = pc.evaluate(case1)
    if ev1.exception is None and ev1.trees and not ev1.placeholder:
        if not pc.close(float(ev1.trees[0].score), got[0], ev.numeric):
            fails.append((f'{PROPERTY}/first-vs-1best', f'first of {k}-best scores {got[0]}, the 1-best run scores '
                          f'{ev1.trees[0].score}'))
    elif ev1.exception is None and ev1.placeholder:
        fails.append((f'{PROPERTY}/first-vs-1best', '1-best run failed although n-best returned trees'))
    return fails


def replay(case):
    native.setup()
    return check_case(case)


def build_case(data, mode, nmax):
    t = Tape(data)
    if mode == 'table':
        case = gen_sent.t_table_case(t, head_modes=('left', 'right'), n_max=t.pick([2, 3, nmax]), T_max=3, K_max=6,
                                     nbest_max=8, numerics=('dyadic', 'dyadic', 'logsoftmax'), beam='off',
                                     multi_label=t.chance(80))
    else:
        case = gen_sent.t_real_case(t, t.pick(['en', 'ja']), n_max=4, nbest_max=6, beam='off')
        case['config']['pruning_size'] = t.int(1, 3)
    if case['config']['nbest'] >= 2 and t.tail(10) % 6 == 0:
        case['repeat'] = 26 + t.tail(11) % 10
    return case


def _shard(ctx, shard, nshards):
    native.setup()
    nmax = ctx.scale(4, 5)
    for mode, n_examples, size in (('table', ctx.scale(500, 12000), 600), ('real', ctx.scale(50, 1000), 700)):
        def factory(mode=mode, n_examples=n_examples, size=size):
            @seed(runner.hseed(ctx, 10 if mode == 'table' else 110))
            @runner.hsettings(n_examples)
            @given(tapes(size))
            def test(data):
                case = build_case(data, mode, nmax)
                info = {}
                fails = check_case(case, info)
                if info.get('discarded'):
                    ctx.notes['discarded_over_cap'] = ctx.notes.get('discarded_over_cap', 0) + 1
                    ctx.count(1, cls='discarded')
                    return
                k, total = info.get('k', 1), info.get('total', 0)
                nontriv = total > k >= 2 and bool(info.get('gap'))
                cls = f"{case['grammar']['kind']}/k={min(k, 4)}{'+' if k > 4 else ''}/" + \
                    ('none' if total == 0 else 'fewer-than-k' if total < k else 'exactly-k' if total == k else 'more-than-k')
                ctx.case(case, nontriv, cls=cls, sample={'n': info.get('n'), 'k': k, 'derivations': total,
                                                          'tags': case['tags'], 'config': case['config']})
                ctx.report(fails, case)
            return test
        ctx.hypothesis(factory)


def run(ctx):
    native.setup()       # translate + compile once, before the shard processes fork
    ctx.shards(_shard, 16, 16)
    return RULE, 'exploration', [
        'sentences with more than 20000 (sub-)derivations are discarded from this check (counted)',
        'ties between equal scores are compared as multisets',
        'Cython semantics of parsing.pyx are emulated by the pyxlite translator']
