"""C02 — every returned parse is a derivation licensed by grammar and input."""
from hypothesis import given, seed

from vlib import gen_sent, native, parser_checks as pc, runner
from vlib.tape import Tape, tapes

PROPERTY = 'C02'
RULE = ('sentences over synthetic rule tables (all-left, all-right and mixed head directions; several results per '
        'category pair; acyclic unary rules) and over the real en/ja rule functions with/without seen-rule filtering; '
        'n-best 1-6, random root sets and beam settings; oracle = validity predicate on every returned tree (one leaf '
        'per token in order carrying that token, admitted supertag, every node category licensed by the grammar '
        'callback, allowed root, no unary root for n>1, else exactly the placeholder) + faults surfaced by the '
        'bounds-checked shim; non-trivial = a returned tree with >=1 binary node (unary nodes counted separately); '
        'distinct by case digest')


@runner.guarded(PROPERTY)
def check_case(case, info=None):
    ev = pc.evaluate(case)
    fails = pc.validity_fails(ev, PROPERTY)
    if info is not None:
        st = pc.tree_stats(ev)
        info.update(st, n=ev.n, placeholder=ev.placeholder, ntrees=len(ev.trees or []))
    return fails


def replay(case):
    if case.get('kind') == 'sanitizer':
        import tempfile, json, os
        d = tempfile.mkdtemp(prefix='depccg_asan_')
        try:
            cf = os.path.join(d, 'case.json')
            with open(cf, 'w') as f:
                json.dump(case['case'], f)
            return _run_sanitizer(0, 0, cf)[0]
        finally:
            import shutil
            shutil.rmtree(d, ignore_errors=True)
    native.setup()
    return check_case(case)


def _run_sanitizer(seed, count, casefile):
    """run the sanitizer worker; returns (fails, cases run, last case)"""
    import json
    import os
    import subprocess
    import sys
    from vlib import env
    asan = subprocess.run(['g++', '-print-file-name=libasan.so'], capture_output=True, text=True).stdout.strip()
    if not os.path.isabs(asan) or not os.path.exists(asan):
        return [], 0, None            # no sanitizer runtime in this sandbox: campaign skipped (noted in evidence)
    e = dict(os.environ, LD_PRELOAD=asan, ASAN_OPTIONS='detect_leaks=0:abort_on_error=0',
             UBSAN_OPTIONS='halt_on_error=1:print_stacktrace=1', PYTHONPATH=env.VERIF, VERIF_REPO=env.REPO)
    r = subprocess.run([sys.executable, '-m', 'vlib.asan_worker', str(seed), str(count), casefile], cwd=env.VERIF,
                       env=e, capture_output=True, text=True, timeout=3000)
    out = r.stdout.strip().split('\n')[-1] if r.stdout.strip() else ''
    if r.returncode == 0 and out.startswith('SANITIZER-OK'):
        return [], int(out.split()[1]), None
    err = r.stderr
    kind = 'AddressSanitizer' if 'AddressSanitizer' in err else ('UndefinedBehaviorSanitizer' if 'runtime error:' in err else None)
    if kind is None:
        if 'BuildError' in err or 'g++ failed' in err:
            raise runner.HarnessError('sanitizer build failed:\n' + err[-1500:])
        kind = f'worker-died-rc{r.returncode}'
    import re
    m = re.search(r'(AddressSanitizer: [\w-]+|runtime error: [^\n]{0,80})', err)
    what = m.group(1) if m else kind
    last = None
    try:
        last = json.load(open(casefile + '.current'))
    except Exception:
        pass
    frames = [ln.strip() for ln in err.split('\n') if 'parsing.h' in ln][:3]
    return [(f'{PROPERTY}/sanitizer/{what.split(":")[0]}/{what.split(":")[-1].strip().split(" ")[0]}',
             f'{what}; frames in parsing.h: {frames}')], 0, last


def sanitizer_campaign(ctx, shard, count):
    import os
    import tempfile
    import shutil
    d = tempfile.mkdtemp(prefix='depccg_asan_')
    try:
        cf = os.path.join(d, 'case.json')
        fails, n, last = _run_sanitizer(runner.hseed(ctx, 202), count, cf)
        ctx.notes['sanitizer_cases'] = ctx.notes.get('sanitizer_cases', 0) + n
        if n == 0 and not fails:
            ctx.notes['sanitizer_campaign'] = 'skipped: no libasan in this sandbox'
        ctx.count(n, cls='sanitizer-build')
        ctx.report_direct(fails, {'kind': 'sanitizer', 'case': last})
    finally:
        shutil.rmtree(d, ignore_errors=True)


def build_case(data, mode):
    if mode == 'long':
        return gen_sent.t_long_case(Tape(data))
    case = _build_case(data, mode)
    # validity / score accounting do not depend on completeness of the search: bound the n-best search,
    # which otherwise explores every derivation when fewer than nbest parses exist
    case['config']['max_step'] = 20000
    return case


def _build_case(data, mode):
    t = Tape(data)
    if mode == 'table':
        return gen_sent.t_table_case(t, head_modes=('left', 'right', 'mixed', 'mixed'), n_max=t.pick([3, 4, 5, 6]),
                                     T_max=5, K_max=8, nbest_max=6, multi_label=t.chance(100))
    return gen_sent.t_real_case(t, t.pick(['en', 'ja']), n_max=5, nbest_max=4)


def _shard(ctx, shard, nshards):
    native.setup()
    if shard < ctx.scale(2, 16):
        sanitizer_campaign(ctx, shard, ctx.scale(150, 1500))
    for mode, n_examples, size in (('table', ctx.scale(1000, 20000), 700), ('real', ctx.scale(80, 1500), 700),
                                  ('long', ctx.scale(3, 30), 400)):
        def factory(mode=mode, n_examples=n_examples, size=size):
            @seed(runner.hseed(ctx, {'table': 2, 'real': 102, 'long': 202}[mode]))
            @runner.hsettings(n_examples)
            @given(tapes(size))
            def test(data):
                case = build_case(data, mode)
                info = {}
                fails = check_case(case, info)
                nontriv = info.get('binary', 0) >= 1
                cls = f"{case['grammar']['kind']}/{case['head_mode']}/nbest={min(case['config']['nbest'], 3)}/" + \
                    ('failed' if info.get('placeholder') else 'parsed') + ('/unary' if info.get('unary') else '')
                ctx.case(case, nontriv, cls=cls, sample={
                    'n': info.get('n'), 'tags': case['tags'], 'roots': case['roots'][:4], 'config': case['config'],
                    'trees_returned': info.get('ntrees'), 'binary_nodes': info.get('binary'),
                    'unary_nodes': info.get('unary')})
                ctx.report(fails, case)
            return test
        ctx.hypothesis(factory)


def run(ctx):
    native.setup()       # translate + compile once, before the shard processes fork
    ctx.shards(_shard, 16, 16)
    return RULE, 'exploration', [
        'Cython semantics of parsing.pyx are emulated by the pyxlite translator; out-of-range rule indices and '
        'missing cache keys (undefined behaviour in the real extension) are surfaced as faults',
        'leaf token compared by equality with the input token',
        'sanitizer campaign: the same shim compiled with -fsanitize=address,undefined in a child interpreter with libasan preloaded (leak detection off)']
