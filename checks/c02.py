"""C02 — every returned parse is a derivation licensed by grammar and input."""
from hypothesis import given, seed

from vlib import gen_sent, native, parser_checks as pc, runner
from vlib.tape import Tape, tapes

PROPERTY = 'C02'
RULE = ('sentences over synthetic rule tables (all-left, all-right and mixed head directions; several results per '
        'category pair; acyclic unary rules) and over the real en/ja rule functions with/without seen-rule filtering; '
        'n-best 1-6, random root sets and beam settings; oracle = validity predicate on every returned tree (one leaf '
        'per token in order carrying that token, admitted supertag, every node category licensed by the grammar '
        'callback, allowed root, no unary root for n>1, else exactly the placeholder) + faults surfaced by the '
        'bounds-checked shim; non-trivial = a returned tree with >=1 binary node (unary nodes counted separately); '
        'distinct by case digest')


@runner.guarded(PROPERTY)
def check_case(case, info=None):
    ev = pc.evaluate(case)
    fails = pc.validity_fails(ev, PROPERTY)
    if info is not None:
        st = pc.tree_stats(ev)
        info.update(st, n=ev.n, placeholder=ev.placeholder, ntrees=len(ev.trees or []))
    return fails


def replay(case):
    native.setup()
    return check_case(case)


def build_case(data, mode):
    case = _build_case(data, mode)
    # validity / score accounting do not depend on completeness of the search: bound the n-best search,
    # which otherwise explores every derivation when fewer than nbest parses exist
    case['config']['max_step'] = 20000
    return case


def _build_case(data, mode):
    t = Tape(data)
    if mode == 'table':
        return gen_sent.t_table_case(t, head_modes=('left', 'right', 'mixed', 'mixed'), n_max=t.pick([3, 4, 5, 6]),
                                     T_max=5, K_max=8, nbest_max=6, multi_label=t.chance(100))
    return gen_sent.t_real_case(t, t.pick(['en', 'ja']), n_max=5, nbest_max=4)


def _shard(ctx, shard, nshards):
    native.setup()
    for mode, n_examples, size in (('table', ctx.scale(1000, 6000), 700), ('real', ctx.scale(80, 500), 700)):
        def factory(mode=mode, n_examples=n_examples, size=size):
            @seed(runner.hseed(ctx, 2 if mode == 'table' else 102))
            @runner.hsettings(n_examples)
            @given(tapes(size))
            def test(data):
                case = build_case(data, mode)
                info = {}
                fails = check_case(case, info)
                nontriv = info.get('binary', 0) >= 1
                cls = f"{case['grammar']['kind']}/{case['head_mode']}/nbest={min(case['config']['nbest'], 3)}/" + \
                    ('failed' if info.get('placeholder') else 'parsed') + ('/unary' if info.get('unary') else '')
                ctx.case(case, nontriv, cls=cls, sample={
                    'n': info.get('n'), 'tags': case['tags'], 'roots': case['roots'][:4], 'config': case['config'],
                    'trees_returned': info.get('ntrees'), 'binary_nodes': info.get('binary'),
                    'unary_nodes': info.get('unary')})
                ctx.report(fails, case)
            return test
        ctx.hypothesis(factory)


def run(ctx):
    ctx.shards(_shard, 16, 16)
    return RULE, 'exploration', [
        'Cython semantics of parsing.pyx are emulated by the pyxlite translator; out-of-range rule indices and '
        'missing cache keys (undefined behaviour in the real extension) are surfaced as faults',
        'leaf token compared by equality with the input token']
