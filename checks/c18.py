"""C18 — printing is an observation: it changes nothing and is repeatable (stateful)."""
import hypothesis
from hypothesis.stateful import RuleBasedStateMachine, initialize, rule, run_state_machine_as_test

from vlib import gen_tree, model_tree as mt, runner
from vlib.tape import Tape, tapes

PROPERTY = 'C18'
RULE = ('Hypothesis rule-based state machines: state = one batch of parse results (1-3 sentences x 1-2 trees, '
        'grammar-licensed or arbitrary, English or Japanese tokens with the annotators\' attribute sets), its structural '
        'snapshot, and a table format -> output of rendering a freshly rebuilt copy; rule = render the live batch in a '
        'drawn format (sequences up to 12, repeats allowed; to_string and the element-tree encoders). Oracle: output == '
        'fresh-copy output for that format, and after every step the snapshot of the live batch (categories, labels, '
        'flags, token dicts key for key) is unchanged. non-trivial = a step after >=2 other formats of which one is '
        'jigg_xml / xml / json; distinct by (batch, format sequence) digest')

FORMATS = {
    'en': ['auto', 'auto_extended', 'deriv', 'xml', 'conll', 'html', 'prolog', 'jigg_xml', 'ptb', 'json',
           'direct:to_jigg_xml', 'direct:xml_of', 'direct:json_full', 'direct:json_of'],
    'ja': ['auto', 'deriv', 'ja', 'conll', 'html', 'jigg_xml', 'ptb', 'json', 'prolog', 'direct:to_jigg_xml',
           'direct:json_of'],
}


def build_batch(case):
    from depccg.tree import ScoredTree
    return [[ScoredTree(tr, -0.25 * (k + 1)) for k, tr in enumerate(gen_tree.sentence_trees(sent))]
            for sent in case['batch']]


def render(batch, fmt):
    """output of one rendering, or ('EXC', type) — renderability itself is C19's concern"""
    from lxml import etree
    from depccg.printer import to_string
    try:
        if fmt == 'direct:to_jigg_xml':
            from depccg.printer.jigg_xml import to_jigg_xml
            return etree.tostring(to_jigg_xml(batch), encoding='unicode')
        if fmt == 'direct:xml_of':
            from depccg.printer.xml import xml_of
            return etree.tostring(xml_of(batch), encoding='unicode')
        if fmt == 'direct:json_of':
            # the encoder behind format 'json', called the way to_string calls it (the caller adds the score)
            from depccg.printer.my_json import json_of
            return repr([[json_of(st.tree) for st in sent] for sent in batch])
        if fmt == 'direct:json_full':
            from depccg.printer.my_json import json_of
            return repr([[json_of(st.tree, full=True) for st in sent] for sent in batch])
        return to_string(batch, format=fmt)
    except Exception as ex:
        return ('EXC', type(ex).__name__)          # (a message may name objects by address)


def snapshot(batch):
    return [[(mt.full(st.tree), st.score) for st in sent] for sent in batch]


@runner.guarded(PROPERTY)
def check_sequence(case, upto=None):
    """replay a whole history on a fresh batch; returns fails of the LAST step only when upto is None"""
    from depccg.lang import set_global_language_to
    set_global_language_to(case['system'])
    try:
        live = build_batch(case)
        snap0 = snapshot(live)
        fails = []
        for k, fmt in enumerate(case['formats']):
            fails += step_fails(case, live, snap0, fmt, case['formats'][:k])
        return fails
    finally:
        set_global_language_to('en')


def step_fails(case, live, snap0, fmt, history):
    fails = []
    before = snapshot(live)
    fresh = render(build_batch(case), fmt)
    got = render(live, fmt)
    if got != fresh and before == snap0:
        # (if an earlier step already changed the batch, that step has been blamed; do not pile up)
        what = 'raises' if isinstance(got, tuple) else 'differs'
        fails.append((f'{PROPERTY}/rerender-{what}/{fmt}',
                      f'rendering {fmt} after {history} gives {str(got)[:160]!r}; a fresh copy gives {str(fresh)[:160]!r}'))
    now = snapshot(live)
    if now != before:
        fails.append((f'{PROPERTY}/mutates/{fmt}',
                      f'rendering {fmt} changed the parse results: {mt.first_diff(_tup(before), _tup(now))}'))
    return fails


def fresh_process_render(case, fmt):
    """the same rendering done by a new interpreter (no earlier rendering has happened there)"""
    import json
    import os
    import subprocess
    import sys
    from vlib import env
    e = dict(os.environ, PYTHONPATH=env.VERIF, VERIF_REPO=env.REPO)
    q = json.dumps({'system': case['system'], 'batch': case['batch'], 'fmt': fmt})
    r = subprocess.run([sys.executable, '-m', 'vlib.render_worker'], input=q + '\n', capture_output=True, text=True,
                       cwd=env.VERIF, env=e, timeout=300)
    if r.returncode != 0 or not r.stdout.strip():
        raise runner.HarnessError('render worker failed: ' + r.stderr[-500:])
    out = json.loads(r.stdout.strip().split('\n')[-1])
    return tuple(out) if isinstance(out, list) else out


def history_fails(case, fmt):
    """hidden process-wide state: a fresh copy rendered here (after whatever this process rendered before) must
    equal the rendering of a process that has rendered nothing else"""
    import os
    if os.environ.get('PYTHONHASHSEED', 'random') == 'random':
        return []           # (this process and a new one hash strings differently: outputs that follow set order may differ)
    here = render(build_batch(case), fmt)
    there = fresh_process_render(case, fmt)
    if here != there:
        return [(f'{PROPERTY}/depends-on-earlier-renderings/{fmt}',
                 f'rendering {fmt} in this process (which rendered other results and formats before) gives '
                 f'{str(here)[:160]!r}; a new interpreter gives {str(there)[:160]!r}')]
    return []


def _tup(x):
    if isinstance(x, (list, tuple)):
        return tuple(_tup(i) for i in x)
    if isinstance(x, dict):
        return tuple(sorted((k, _tup(v)) for k, v in x.items()))
    return x


def replay(case):
    if case.get('kind') == 'history':
        # reproduce the history first: render the bracket-token families in this process, then compare
        fails = []
        for fmt in case['formats']:
            render(build_batch(case), fmt)
        for fmt in case['formats']:
            from depccg.lang import set_global_language_to
            set_global_language_to(case['system'])
            fails += history_fails(case, fmt)
        return fails
    return check_sequence(case)


def build_case(data):
    t = Tape(data)
    system = t.pick(['en', 'ja'])
    nsent = t.weighted([(3, 1), (2, 2), (1, 3)])
    batch = []
    for _ in range(nsent):
        first = gen_tree.t_tree_case(t, system, max_leaves=5, tok_exclude='', ja_tokens=(system == 'ja'),
                                      variants=True)
        sent = [first]
        if t.chance(90):
            # a second tree of the n-best list over the same (shared) tokens, with other categories
            n = len(first['tokens'])
            other = None
            for _try in range(4):
                cand = gen_tree.t_tree_case(t, system, licensed=False, max_leaves=n, ja_tokens=(system == 'ja'))
                if len(cand['tokens']) == n:
                    other = dict(cand, tokens=first['tokens'])
                    break
            sent.append(other or dict(first))
        batch.append(sent)
    if t.tail(0) % 3 == 0:
        # a token that carries attributes named like the ones the structured formats generate themselves
        # (tokens rebuilt from Jigg XML <token> elements or from json leaves have them)
        toks = batch[t.tail(1) % len(batch)][0]['tokens']
        tok = toks[t.tail(2) % len(toks)]
        extra = [('id', 't9_9'), ('start', '7'), ('span', '3'), ('cat', 'N'), ('type', 'x')]
        k0 = t.tail(3) % len(extra)
        for k_, v_ in (extra + extra)[k0:k0 + 1 + t.tail(4) % 3]:
            tok[k_] = v_
    return {'system': system, 'batch': batch, 'formats': []}


def _shard(ctx, shard, nshards):
    from depccg.lang import set_global_language_to
    for lang in ('en', 'ja'):
        gen_tree.rule_index(lang)

    counter = [0]

    class Machine(RuleBasedStateMachine):
        def __init__(self):
            super().__init__()
            self.case = None
            self.check_history = False

        @initialize(data=tapes(1200))
        def init(self, data):
            counter[0] += 1
            self.check_history = counter[0] % 24 == 0
            self.case = build_case(data)
            set_global_language_to(self.case['system'])
            self.live = build_batch(self.case)
            self.snap0 = snapshot(self.live)

        @rule(data=tapes(2))
        def render_one(self, data):
            if self.case is None:
                return
            t = Tape(data)
            fmts = FORMATS[self.case['system']]
            fmt = t.pick(fmts)
            history = list(self.case['formats'])
            set_global_language_to(self.case['system'])
            try:
                fails = step_fails(self.case, self.live, self.snap0, fmt, history)
            except Exception as ex:
                fails = [(f'{PROPERTY}/unexpected-exception/{type(ex).__name__}', str(ex))]
            self.case['formats'] = history + [fmt]
            if self.check_history and len(history) == 2:
                fails = fails + history_fails(self.case, fmt)
                ctx.notes['fresh_interpreter_comparisons'] = ctx.notes.get('fresh_interpreter_comparisons', 0) + 1
                if any('depends-on-earlier' in f[0] for f in fails):
                    ctx.report([f for f in fails if 'depends-on-earlier' in f[0]],
                               {'kind': 'history', 'system': self.case['system'], 'batch': self.case['batch'],
                                'formats': FORMATS[self.case['system']]})
            distinct = set(history)
            nontriv = len(distinct - {fmt}) >= 2 and any(h.split(':')[-1] in ('jigg_xml', 'to_jigg_xml', 'xml', 'xml_of', 'json')
                                                         for h in history)
            ctx.case([self.case['batch'], self.case['formats']], nontriv,
                     cls=f"{self.case['system']}/{fmt}" + ('/after-xml-like' if nontriv else ''),
                     sample={'system': self.case['system'], 'formats_so_far': self.case['formats']})
            ctx.report(fails, {'system': self.case['system'], 'batch': self.case['batch'],
                               'formats': list(self.case['formats'])})

        def teardown(self):
            set_global_language_to('en')

    def factory():
        def test():
            run_state_machine_as_test(
                hypothesis.seed(runner.hseed(ctx, 18))(Machine),
                settings=runner.hsettings(ctx.scale(150, 2000), stateful_step_count=12))
        return test
    ctx.hypothesis(factory)


def run(ctx):
    n = ctx.scale(8, 16)
    ctx.shards(_shard, n, n)
    return RULE, 'exploration', [
        'a rendering that raises is compared as an outcome (same exception on the fresh copy = repeatable); whether a format '
        'must be renderable at all is C19\'s concern',
        'the ccg2lambda formats need NLTK and are not rendered']
