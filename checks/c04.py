"""C04 — Japanese combinatory rules are sound; unary steps are labelled by the shape of their input."""
from hypothesis import given, seed

from vlib import gen_cat, gen_pair, inventory, oracle_ja as oj, runner
from vlib.model_cat import ORIGINS, A, F, canon, from_json, jsonable, model_of, read, to_cat, to_cat_via
from vlib.tape import Tape, tapes

PROPERTY = 'C04'
RULE = ('(soundness only: the statement has no converse clause) ordered pairs of categories with Japanese feature triples: all pairs of targets.ja (sharded sweep), pairs with '
        'categories one rule application away, pairs over a bounded enumeration, and Hypothesis-generated '
        'instantiations of the 10 schemas (+ sentence sequencing) with 0-2 perturbations; for unary steps every '
        'left-hand side of unary_rules.ja plus bounded synthetic inputs (S, S\\NP, (S\\NP)\\NP, NP with mod in '
        'adn/adv/nm); oracle = schema table; non-trivial = a rule fired or a schema premise holds (binary), '
        'a label fixed by the statement (unary); distinct by input text')

SCHEMA_PATTERNS = [("a/b", "b"), ("b", "a\\b"), ("a/b", "b/c"), ("b\\c", "a\\b"), ("(b\\c)|d", "a\\b"),
                   ("((b\\c)|d)|e", "a\\b"), ("(((b\\c)|d)|e)|f", "a\\b"), ("a/b", "b\\c"),
                   ("a/b", "(b\\c)|d"), ("a/b", "((b\\c)|d)|e")]


@runner.guarded(PROPERTY)
def check_pair(mx, my, info=None, origins=('built', 'built')):
    from depccg.grammar import ja
    fails = []

    def bad(key, msg):
        fails.append((f'{PROPERTY}/{key}', msg))
    x, y = to_cat_via(mx, origins[0]), to_cat_via(my, origins[1])
    tag = f'({canon(mx)} , {canon(my)})'
    try:
        results = ja.apply_binary_rules(x, y)
    except Exception as ex:
        bad(f'raises/{type(ex).__name__}', f'{tag}: {type(ex).__name__}: {ex}')
        return fails
    got = []
    unspec = 0
    for r in results:
        mr = model_of(r.cat)
        got.append((r.op_symbol, mr))
        if r.head_is_left is not False:
            bad(f'head/{r.op_symbol}', f'{tag} -> {r.cat} [{r.op_symbol}]: head is not the right child')
        why = oj.justify(mx, my, mr, r.op_symbol)
        if why is oj.UNSPEC:
            unspec += 1
        elif why:
            bad(f'unsound/{r.op_symbol}/{why}', f'{tag} -> {r.cat} labelled {r.op_symbol}: {why}')
    # (the statement for the Japanese grammar has no converse clause: a rule that fires less often than its schema
    # allows breaks nothing; the cases in which a schema's premises hold are only counted)
    missing = [sym for sym, want in oj.expected(mx, my) if (sym, want) not in got]
    if info is not None:
        info['nres'] = len(results)
        info['unspec'] = unspec
        info['schema_applicable_but_silent'] = len(missing)
    return fails


@runner.guarded(PROPERTY)
def check_unary(mx, targets, info=None):
    """targets: list of category models configured for mx"""
    from depccg.grammar import ja
    fails = []
    x = to_cat(mx)
    table = {x: [to_cat(t) for t in targets]}
    try:
        results = ja.apply_unary_rules(x, table)
    except Exception as ex:
        return [(f'{PROPERTY}/unary-raises/{type(ex).__name__}', f'{canon(mx)}: {type(ex).__name__}: {ex}')]
    want = oj.unary_label(mx)
    if info is not None:
        info['label'] = want
    if [model_of(r.cat) for r in results] != list(targets):
        fails.append((f'{PROPERTY}/unary-targets', f'{canon(mx)}: results {[str(r.cat) for r in results]} '
                      f'differ from the configured targets'))
    for r in results:
        if want is not None and r.op_symbol != want and r.op_string != want:
            fails.append((f'{PROPERTY}/unary-label/{want}', f'{canon(mx)} -> {r.cat}: labelled {r.op_symbol}, '
                          f'the shape of the input requires {want}'))
    return fails


def replay(case):
    if case.get('kind') == 'unary':
        return check_unary(from_json(case['x']), [from_json(t) for t in case['targets']])
    return check_pair(from_json(case['x']), from_json(case['y']),
                      origins=(case.get('origin_x', 'built'), case.get('origin_y', 'built')))


def _do_pair(ctx, mx, my, cls, direct, extra=None):
    info = {'nres': 0, 'unspec': 0}
    fails = check_pair(mx, my, info, origins=((extra or {}).get('origin_x', 'built'), (extra or {}).get('origin_y', 'built')))
    case = {'kind': 'binary', 'x': jsonable(mx), 'y': jsonable(my)}
    if extra:
        case.update(extra)
    if info['unspec']:
        ctx.unspec('three-part features with variables on both sides')
    if info.get('schema_applicable_but_silent'):
        ctx.unspec('a schema\'s premises hold but the rule is silent (no converse clause in the statement)')
    nontriv = info['nres'] > 0 or bool(oj.premises_hold(mx, my))
    ctx.case([canon(mx), canon(my)], nontriv, cls=cls + ('/fires' if info['nres'] else '/silent'),
             sample={'x': canon(mx), 'y': canon(my), 'results': info['nres'], **(extra or {})})
    (ctx.report_direct if direct else ctx.report)(fails, case)


def inventory_models():
    return list(dict.fromkeys(read(s) for s in inventory.targets('ja') if not s.startswith('*')))


def closure_models(inv, limit):
    from depccg.grammar import ja
    cats = [to_cat(m) for m in inv]
    out = {}
    known = set(inv)
    step = max(1, (len(cats) * len(cats)) // 30000)
    k = 0
    for x in cats:
        for y in cats:
            k += 1
            if k % step:
                continue
            try:
                for r in ja.apply_binary_rules(x, y):
                    m = model_of(r.cat)
                    if m not in known:
                        out.setdefault(m, None)
            except Exception:
                pass
    return list(out)[:limit]


def build_case(data):
    t = Tape(data)
    if t.chance(24):
        rs = oj.roots()
        x = t.pick(rs)
        y = t.pick(rs)
        if t.chance(100):
            y, _ = gen_pair.t_perturb(t, y, 'ja')
        return x, y, {'schema': 'SSEQ', 'perturbations': [],
                      'origin_x': ORIGINS[t.tail(0) % 4], 'origin_y': ORIGINS[t.tail(1) % 4]}
    px, py = t.pick(SCHEMA_PATTERNS)
    mpx, mpy = read(px), read(py)
    n_pert = t.weighted([(4, 0), (3, 1), (1, 2)])
    mx, my, env, kinds = gen_pair.t_instance(t, mpx, mpy, 'ja', n_pert, list('abcdef'))
    return mx, my, {'schema': [px, py], 'perturbations': kinds,
                    'origin_x': ORIGINS[t.tail(0) % 4], 'origin_y': ORIGINS[t.tail(1) % 4]}


def synthetic_unary_inputs():
    out = []
    NPga = A('NP', (('case', 'ga'), ('mod', 'nm'), ('fin', 'f')))
    NPo = A('NP', (('case', 'o'), ('mod', 'nm'), ('fin', 'f')))
    for mod in ('adn', 'adv', 'nm'):
        for form in ('base', 'cont', 'attr'):
            s = A('S', (('mod', mod), ('form', form), ('fin', 'f')))
            out += [s, F(s, '\\', NPga), F(F(s, '\\', NPga), '\\', NPo), F(F(F(s, '\\', NPga), '\\', NPo), '\\', NPo),
                    F(s, '/', NPga)]
        out.append(A('NP', (('case', 'nc'), ('mod', mod), ('fin', 'f'))))
    return out


def _shard(ctx, shard, nshards):
    inv = inventory_models()
    n = len(inv)
    k = 0
    for i in range(n):
        for j in range(n):
            k += 1
            if k % nshards != shard:
                continue
            _do_pair(ctx, inv[i], inv[j], 'inventory', True)
    clo = closure_models(inv, ctx.scale(150, 600))
    sample_inv = inv[::ctx.scale(7, 2)]
    k = 0
    for c in clo:
        for m in sample_inv:
            k += 1
            if k % nshards != shard:
                continue
            _do_pair(ctx, c, m, 'closure', True)
            _do_pair(ctx, m, c, 'closure', True)
    vals = gen_cat.enum_cats('ja', 1, bar=True, reduced=True)
    stride = ctx.scale(16, 1)
    k = 0
    for i, a in enumerate(vals):
        for j, b in enumerate(vals):
            k += 1
            if k % nshards != shard:
                continue
            if stride > 1 and ((i * 31 + j * 17 + ctx.seed) % stride):
                continue
            _do_pair(ctx, a, b, 'bounded', True)
    if not ctx.quick:
        # deeper bound: a strided sample of the values with exactly two slashes against the one-slash values
        deep = gen_cat.enum_cats('ja', 2, bar=True, reduced=True)[len(vals):]
        step_d = max(1, len(deep) // 2500)
        step_v = max(1, len(vals) // 48)
        k = 0
        for d_ in deep[(ctx.seed * 7) % step_d::step_d]:
            for v_ in vals[(ctx.seed * 3) % step_v::step_v]:
                k += 1
                if k % nshards != shard:
                    continue
                _do_pair(ctx, d_, v_, 'bounded-2-slashes', True)
                _do_pair(ctx, v_, d_, 'bounded-2-slashes', True)
    if shard == 0:
        ctx.notes['inventory_size'] = n
        ctx.notes['closure_categories'] = len(clo)
        ctx.notes['bounded_values'] = len(vals)
        # unary: shipped table + synthetic
        table = {}
        for lhs, rhs in inventory.unary_rules('ja'):
            table.setdefault(read(lhs), []).append(read(rhs))
        labels = {}
        for mx, targets in list(table.items()) + [(m, [read('NP[case=nc,mod=X1,fin=X2]/NP[case=nc,mod=X1,fin=X2]')])
                                                  for m in synthetic_unary_inputs() if m not in table]:
            info = {}
            fails = check_unary(mx, targets, info)
            case = {'kind': 'unary', 'x': jsonable(mx), 'targets': [jsonable(t) for t in targets]}
            lab = info.get('label')
            labels[str(lab)] = labels.get(str(lab), 0) + 1
            if lab is None:
                ctx.unspec('unary input shape not fixed by the statement')
            ctx.case(['unary', canon(mx)], lab is not None, cls=f'unary/{lab}',
                     sample={'unary_input': canon(mx), 'expected_label': lab})
            ctx.report_direct(fails, case)
        ctx.notes['unary_expected_labels'] = labels

    def factory():
        @seed(runner.hseed(ctx, 4))
        @runner.hsettings(ctx.scale(1500, 40000))
        @given(tapes(200))
        def test(data):
            mx, my, extra = build_case(data)
            npert = len([p for p in extra['perturbations'] if ':' in p])
            _do_pair(ctx, mx, my, f'instantiated/{npert}-perturbations', False, extra)
        return test
    ctx.hypothesis(factory)


def run(ctx):
    n = 16
    ctx.shards(_shard, n, n)
    ctx.exhaustive = (f"all ordered pairs of the {ctx.notes.get('inventory_size')} categories of targets.ja, every "
                      'left-hand side of unary_rules.ja'
                      + ('' if ctx.quick else f", all pairs of the {ctx.notes.get('bounded_values')} bounded categories"))
    return RULE, 'exploration', [
        'three-part features with variables on both sides in different slots: not fixed by the statement (counted)',
        'unary labels are judged only for the shapes the statement names: S, S\\NP, (S\\NP)\\NP (and NP for ADV0)',
        'categories without feature triples are outside the Japanese rule functions\' domain']
