"""C08 — AUTO text written by depccg reads back to the same tree."""
import os

from hypothesis import given, seed

from vlib import gen_tok, gen_tree, model_tree as mt, runner
from vlib.tape import Tape, tapes

PROPERTY = 'C08'
RULE = ('trees (grammar-licensed from the live en/ja rule index, and arbitrary well-formed with either head direction at '
        'each binary node) with tokens over printable non-blank text without backslashes (whole-token brackets, bracket / '
        'angle / quote characters inside words, CJK, emoji, combining marks boosted), written with to_string(auto) as '
        'files of 1-3 sentences x 1-2 trees and read back with read_auto; oracle = round trip on categories, shape, head '
        'flags, pos and escaped words, exact re-print of the line, and the conll last-column fragments concatenating to '
        'the line; non-trivial = a tree with a unary and a right-headed binary node, or a bracket/angle token; distinct '
        'by case digest')


def esc(word):
    """the AUTO escaping of a word as the statement describes it (own statement, not utils.denormalize)"""
    table = {'(': '-LRB-', ')': '-RRB-', '{': '-LCB-', '}': '-RCB-', '[': '-LSB-', ']': '-RSB-'}
    if word in table:
        return table[word]
    return word.replace('>', '-RAB-').replace('<', '-LAB-')


def esc_all(word):
    """every bracket and angle character in its escaped spelling, wherever it stands in the word"""
    for ch, e in (('(', '-LRB-'), (')', '-RRB-'), ('{', '-LCB-'), ('}', '-RCB-'), ('[', '-LSB-'), (']', '-RSB-'),
                  ('>', '-RAB-'), ('<', '-LAB-')):
        word = word.replace(ch, e)
    return word


def word_ok(got, orig):
    """the read word is the original 'in escaped spelling': whole-word brackets and all angle characters escaped (what
    the format needs), brackets inside a longer word escaped or not"""
    return got is not None and (got == esc(orig) or got == esc_all(orig))


@runner.guarded(PROPERTY)
def check_case(case, info=None):
    from depccg.lang import set_global_language_to
    from depccg.printer import to_string
    from depccg.printer.auto import auto_of
    from depccg.printer.conll import conll_of
    from depccg.tools.reader import read_auto
    from depccg.tree import ScoredTree
    fails = []

    def bad(key, msg):
        fails.append((f'{PROPERTY}/{key}', msg))
    set_global_language_to(case['system'])
    try:
        batch = []
        flat = []
        for sent in case['batch']:
            trees = []
            for k, tc in enumerate(sent):
                tr = gen_tree.tree_of_case(tc)
                trees.append(ScoredTree(tr, -1.5 * (k + 1)))
                flat.append(tr)
            batch.append(trees)
        text = to_string(batch, format='auto')
        lines = [l for l in text.split('\n') if l.strip()]       # (blank lines between records carry nothing)
        if len(lines) != 2 * len(flat):
            bad('line-count', f'{len(flat)} trees printed as {len(lines)} lines')
            return fails
        path = mt.scratch_file('.auto')
        with open(path, 'w', encoding='utf-8') as f:
            f.write(text)
        try:
            try:
                rs = list(read_auto(path))
            except Exception as ex:
                bad(f'reader-raises/{type(ex).__name__}', f'{type(ex).__name__}: {ex} on {lines[1]!r}')
                return fails
        finally:
            os.unlink(path)
        if len(rs) != len(flat):
            bad('tree-count', f'{len(flat)} trees written, {len(rs)} read back')
            return fails
        for k, (orig, r) in enumerate(zip(flat, rs)):
            line = lines[2 * k + 1]
            want = mt.shape(orig, leaf=lambda t: (t.token['pos'], esc_all(t.token['word'])),
                            node=lambda t: (bool(t.head_is_left),) if not t.is_unary else ())
            got = mt.shape(r.tree, leaf=lambda t: (t.token.get('pos'), esc_all(t.token.get('word') or '')),
                           node=lambda t: (bool(t.head_is_left),) if not t.is_unary else ())
            if want != got:
                bad('tree-differs', f'line {line!r}: {mt.first_diff(want, got)}')
                continue
            spelled = [(l2.token.get('word'), l1.token['word']) for l1, l2 in zip(orig.leaves, r.tree.leaves)
                       if not word_ok(l2.token.get('word'), l1.token['word'])]
            if spelled:
                bad('tree-differs', f'line {line!r}: word {spelled[0][1]!r} read back as {spelled[0][0]!r}, not in '
                    'escaped spelling')
                continue
            if len(r.tokens) != len(orig.leaves):
                bad('token-list', f'reader token list has {len(r.tokens)} entries for {len(orig.leaves)} leaves')
            again = auto_of(r.tree)
            if again != line:
                bad('reprint-differs', f'printed {line!r}, re-printed after reading {again!r}')
            frag = ' '.join(l.split('\t')[-1] for l in conll_of(orig).split('\n') if l.strip() and not l.startswith('#'))
            if frag != line:
                bad('conll-fragments', f'conll last column joins to {frag!r}, auto line is {line!r}')
    finally:
        set_global_language_to('en')
    return fails


def replay(case):
    return check_case(case)


def build_case(data):
    t = Tape(data)
    system = t.pick(['en', 'en', 'ja'])
    nsent = t.weighted([(5, 1), (2, 2), (1, 3)])
    batch = []
    for _ in range(nsent):
        nb = t.weighted([(4, 1), (1, 2)])
        batch.append([gen_tree.t_tree_case(t, system, max_leaves=6, tok_exclude='\\', ja_tokens=False)
                      for _ in range(nb)])
    return {'system': system, 'batch': batch}


def _shard(ctx, shard, nshards):
    for lang in ('en', 'ja'):
        gen_tree.rule_index(lang)

    def factory():
        @seed(runner.hseed(ctx, 8))
        @runner.hsettings(ctx.scale(1500, 25000))
        @given(tapes(1500))
        def test(data):
            case = build_case(data)
            derivs = [gen_tree.deriv_from_json(tc['deriv']) for s in case['batch'] for tc in s]
            words = [tk['word'] for s in case['batch'] for tc in s for tk in tc['tokens']]
            brack = any(gen_tok.classify_word(w) in ('whole-bracket', 'contains-bracket') for w in words)
            both = any(gen_tree.has_unary(d) and gen_tree.has_right_headed(d) for d in derivs)
            lic = case['batch'][0][0]['licensed']
            cls = f"{case['system']}/{'licensed' if lic else 'arbitrary'}" + ('/bracket-token' if brack else '') + \
                ('/unary+right-headed' if both else '') + ('/multi' if len(derivs) > 1 else '')
            ctx.case(case, brack or both, cls=cls, sample={'system': case['system'], 'words': words[:8],
                                                           'trees': len(derivs)})
            ctx.report(check_case(case), case)
        return test
    ctx.hypothesis(factory)


def run(ctx):
    n = ctx.scale(8, 16)
    ctx.shards(_shard, n, n)
    return RULE, 'exploration', [
        'tokens carry a pos attribute (as every annotator\'s do); token text excludes backslashes per the statement',
        'rule labels of read-back trees are C12\'s concern, not compared here']
