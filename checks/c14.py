"""C14 — rule application is a pure, total, reproducible function; filters only remove."""
import json
import os
import subprocess
import sys

from hypothesis import given, seed

from vlib import env, gen_cat, gen_pair, inventory, runner
from vlib.model_cat import A, canon, erase, from_json, jsonable, leaves, model_of, read, to_cat
from vlib.tape import Tape, tapes

PROPERTY = 'C14'
RULE = ('pairs of categories per grammar (inventory pairs, schema instantiations in which one feature variable occurs '
        'several times against different concrete values, bounded random categories), random and shipped seen-rule '
        'sets containing / not containing the erased key, random unary tables; each case is evaluated in-process twice '
        'and by child interpreters started under different PYTHONHASHSEED values, and all serialised result lists must '
        'be identical; non-trivial = at least one rule fires and >=2 variable-feature leaves meet different concrete '
        'features, or a seen-rule set that decides the outcome, or a unary table hit; distinct by case digest')

PATTERNS = [("a/b", "b"), ("b", "a\\b"), ("a/b", "b/c"), ("b/c", "a\\b"), ("a/b", "(b/c)|d"), ("(b/c)|d", "a\\b"),
            ("b\\c", "a\\b"), ("(b\\c)|d", "a\\b"), ("a/b", "b\\c"), ("a/b", "(b\\c)|d")]


def serialise(results):
    return [[str(r.cat), r.op_string, r.op_symbol, bool(r.head_is_left)] for r in results]


class Workers:
    """persistent child interpreters, one per hash seed; the first one is restarted every RESTART questions so
    that its answers come from a process with (almost) no call history"""
    RESTART = 96

    def __init__(self, hash_seeds):
        self.procs = []
        self.asked = 0
        for hs in hash_seeds:
            self.procs.append([hs, self._spawn(hs)])

    def _spawn(self, hs):
        e = dict(os.environ, PYTHONHASHSEED=str(hs), PYTHONPATH=env.VERIF, VERIF_REPO=env.REPO)
        return subprocess.Popen([sys.executable, '-u', '-m', 'vlib.rule_worker'], cwd=env.VERIF, env=e,
                                stdin=subprocess.PIPE, stdout=subprocess.PIPE, stderr=subprocess.DEVNULL, text=True)

    def ask(self, q):
        self.asked += 1
        if self.asked % self.RESTART == 0:
            hs, p = self.procs[0]
            try:
                p.stdin.close()
                p.wait(timeout=5)
            except Exception:
                p.kill()
            self.procs[0][1] = self._spawn(hs)
        line = json.dumps(q) + '\n'
        for _, p in self.procs:
            p.stdin.write(line)
            p.stdin.flush()
        out = []
        for hs, p in self.procs:
            ans = p.stdout.readline()
            if not ans:
                raise runner.HarnessError(f'rule worker (PYTHONHASHSEED={hs}) died')
            out.append((hs, json.loads(ans)))
        return out

    def close(self):
        for _, p in self.procs:
            try:
                p.stdin.close()
                p.wait(timeout=5)
            except Exception:
                p.kill()


def _pickled(obj):
    import base64
    import pickle
    return base64.b64encode(pickle.dumps(obj)).decode('ascii')


def _grammar(lang):
    from depccg.grammar import en, ja
    return en if lang == 'en' else ja


@runner.guarded(PROPERTY)
def check_case(case, workers=None, info=None):
    fails = []

    def bad(key, msg):
        fails.append((f'{PROPERTY}/{key}', msg))
    lang = case['lang']
    g = _grammar(lang)
    if case['op'] == 'unary':
        mx = from_json(case['x'])
        table_m = [(from_json(k), [from_json(v) for v in vs]) for k, vs in case['table']]
        x = to_cat(mx)
        table = {to_cat(k): [to_cat(v) for v in vs] for k, vs in table_m}
        if case.get('defaultdict'):
            import collections
            dd = collections.defaultdict(list)      # the table type depccg.allennlp.utils.read_params builds
            dd.update(table)
            table = dd
        tag = f'{lang} unary {canon(mx)}'
        try:
            r1 = g.apply_unary_rules(x, table)
            r2 = g.apply_unary_rules(x, table)
        except Exception as ex:
            bad(f'raises/unary/{type(ex).__name__}', f'{tag}: {type(ex).__name__}: {ex}')
            return fails
        want = []
        for k, vs in table_m:
            if k == mx:
                want = vs
        if [model_of(r.cat) for r in r1] != want:
            bad('unary-targets', f'{tag}: got {[str(r.cat) for r in r1]}, configured {[canon(v) for v in want]}')
        if serialise(r1) != serialise(r2):
            bad('not-repeatable', f'{tag}: second call differs')
        if model_of(x) != mx or [(model_of(k), [model_of(v) for v in vs]) for k, vs in table.items()] != \
                [(k, vs) for k, vs in dict((k, vs) for k, vs in table_m).items()]:
            bad('mutates', f'{tag}: arguments changed')
        if info is not None:
            info['fires'] = bool(r1)
        if workers is not None:
            q = {'lang': lang, 'op': 'unary', 'x': canon(mx),
                 'table': [[canon(k), [canon(v) for v in vs]] for k, vs in table_m]}
            for hs, ans in workers.ask(q):
                if ans.get('ok') != serialise(r1):
                    bad('process-dependent', f'{tag}: under PYTHONHASHSEED={hs} got {ans}, here {serialise(r1)}')
            qp = {'lang': lang, 'op': 'unary', 'pickled': _pickled({'x': x, 'table': table})}
            for hs, ans in workers.ask(qp):
                if ans.get('ok') != serialise(r1):
                    bad('process-dependent/pickled-arguments', f'{tag}: with the table pickled into a process under '
                        f'PYTHONHASHSEED={hs} got {ans}, here {serialise(r1)}')
        return fails

    mx, my = from_json(case['x']), from_json(case['y'])
    x, y = to_cat(mx), to_cat(my)
    tag = f'{lang} ({canon(mx)} , {canon(my)})'
    try:
        r1 = g.apply_binary_rules(x, y)
        r2 = g.apply_binary_rules(x, y)
    except Exception as ex:
        bad(f'raises/{type(ex).__name__}', f'{tag}: {type(ex).__name__}: {ex}')
        return fails
    s1 = serialise(r1)
    if info is not None:
        info['fires'] = bool(r1)
    if s1 != serialise(r2):
        bad('not-repeatable', f'{tag}: second call returned {serialise(r2)}, first {s1}')
    # a function of its arguments only: the session-wide language setting is not one of them
    try:
        from depccg.lang import get_global_language, set_global_language_to
    except ImportError:         # (no such switch under these names: nothing to vary)
        def get_global_language():
            return None

        def set_global_language_to(lang):
            return None
    cur = get_global_language()
    try:
        for session in (('ja', 'en') if cur is not None else ()):
            set_global_language_to(session)
            try:
                r_s = serialise(g.apply_binary_rules(to_cat(mx), to_cat(my)))
            except Exception as ex:
                r_s = f'{type(ex).__name__}: {ex}'
            if r_s != s1:
                bad('depends-on-session-language', f'{tag}: with the global language set to {session!r} the result is '
                    f'{r_s}, otherwise {s1}')
                break
    finally:
        set_global_language_to(cur)
    if model_of(x) != mx or model_of(y) != my:
        bad('mutates', f'{tag}: arguments changed')
    if lang == 'en':
        ex_, ey_ = erase(mx, ('nb',)), erase(my, ('nb',))
        if (ex_, ey_) != (mx, my):
            r3 = g.apply_binary_rules(to_cat(ex_), to_cat(ey_))
            if serialise(r3) != s1:
                bad('nb-dependence', f"{tag}: results differ from those of the 'nb'-erased pair")
    seen_lists = []
    if case.get('seen') is not None:
        shipped = case['seen'] == 'shipped'
        seen_src = _prepare()['seens'][lang] if shipped else case['seen']
        seen_m = {(from_json(a), from_json(b)) for a, b in seen_src}
        seen = {(to_cat(a), to_cat(b)) for a, b in seen_m}
        key = (erase(mx, ('X', 'nb')), erase(my, ('X', 'nb')))
        try:
            rf = g.apply_binary_rules(x, y, seen_rules=seen)
        except Exception as ex:
            bad(f'raises/{type(ex).__name__}', f'{tag} with seen rules: {type(ex).__name__}: {ex}')
            return fails
        want = s1 if key in seen_m else []
        if serialise(rf) != want:
            bad('filter/' + ('drops-seen-pair' if key in seen_m else 'passes-unseen-pair'),
                f'{tag}: erased key {"in" if key in seen_m else "not in"} the seen set, got {serialise(rf)}, '
                f'unrestricted {s1}')
        if not shipped:
            # the answer depends on the CURRENT contents of the set only: edit one set object in place
            key_c = (to_cat(key[0]), to_cat(key[1]))
            s2 = set(seen)
            for present in (False, True, False, True):
                if present:
                    s2.add(key_c)
                else:
                    s2.discard(key_c)
                r_ = serialise(g.apply_binary_rules(x, y, seen_rules=s2))
                if r_ != (s1 if present else []):
                    bad('filter/stale-after-set-edit', f'{tag}: after the erased key was '
                        f'{"added to" if present else "removed from"} the same seen-rule set the result is {r_}, '
                        f'unrestricted {s1}')
                    break
        if info is not None:
            info['seen_in'] = key in seen_m
        if not shipped:
            seen_lists = [[canon(a), canon(b)] for a, b in sorted(seen_m, key=lambda p: (canon(p[0]), canon(p[1])))]
    if workers is not None:
        q = {'lang': lang, 'op': 'binary', 'x': canon(mx), 'y': canon(my)}
        for hs, ans in workers.ask(q):
            if ans.get('ok') != s1:
                bad('process-dependent', f'{tag}: under PYTHONHASHSEED={hs} got {ans}, here {s1}')
        if seen_lists:
            q2 = dict(q, seen=seen_lists)
            answers = workers.ask(q2)
            first = answers[0][1]
            for hs, ans in answers:
                if ans != first:
                    bad('process-dependent', f'{tag} with seen rules: differs between hash seeds')
            if not shipped:
                seen_objs = {(to_cat(a), to_cat(b)) for a, b in seen_m}
                here = serialise(g.apply_binary_rules(x, y, seen_rules=seen_objs))     # (hashes every member here)
                qp = dict(q, pickled=_pickled({'x': x, 'y': y, 'seen': seen_objs}))
                for hs, ans in workers.ask(qp):
                    if ans.get('ok') != here:
                        bad('process-dependent/pickled-arguments', f'{tag}: with the seen-rule set pickled into a process '
                            f'under PYTHONHASHSEED={hs} got {ans}, here {here}')
    return fails


def replay(case):
    w = Workers([0, 1, 2, 3, 4, 5, 6, 7])
    try:
        return check_case(case, w)
    finally:
        w.close()


def var_conflict_count(mx, my):
    """rough count of variable-feature leaves in one input (non-trivial rule)"""
    def isv(f):
        return f == 'X' or (isinstance(f, tuple) and any(v.startswith('X') for _, v in f))
    return sum(1 for l in leaves(mx) + leaves(my) if isv(l[2]))


def t_to_var(t, m, system, per256):
    if m[0] == 'f':
        return ('f', t_to_var(t, m[1], system, per256), m[2], t_to_var(t, m[3], system, per256))
    if m[1] in gen_cat.EN_PUNCT or not t.chance(per256):
        return m
    if system == 'en':
        return A(m[1], 'X')
    layout = gen_cat.JA_S if m[1] == 'S' else gen_cat.JA_NP
    return A(m[1], tuple((k, vs[-1] if t.chance(160) else old) for (k, vs), (_, old) in zip(layout, m[2])))


def build_case(data, invs, seens):
    t = Tape(data)
    lang = t.pick(['en', 'en', 'ja'])
    op = t.weighted([(7, 'binary'), (1, 'unary')])
    if op == 'unary':
        # unary tables are keyed by categories with feature triples (every shipped table is); the inventory's
        # featureless *START* / *END* markers are not unary-rule inputs
        pool = [m for m in invs[lang] if not (lang == 'ja' and m[0] == 'a' and m[2] is None)]
        keys = [t.pick(pool) for _ in range(t.int(1, 4))]
        keys = list(dict.fromkeys(keys))
        table = [(k, [t.pick(pool) for _ in range(t.below(3))]) for k in keys]
        x = t.pick(keys) if t.chance(180) else t.pick(pool)
        return {'lang': lang, 'op': 'unary', 'x': jsonable(x), 'defaultdict': t.chance(128),
                'table': [[jsonable(k), [jsonable(v) for v in vs]] for k, vs in table], 'mode': 'unary'}
    mode = t.weighted([(4, 'varconflict'), (3, 'inventory'), (1, 'random')])
    if mode == 'inventory':
        mx, my = t.pick(invs[lang]), t.pick(invs[lang])
    elif mode == 'random':
        mx = gen_cat.t_cat(t, lang, depth=2, bar=True)
        my = gen_cat.t_cat(t, lang, depth=2, bar=True)
    else:
        px, py = t.pick(PATTERNS if lang == 'ja' else PATTERNS[:6])
        mpx, mpy = read(px), read(py)
        mx, my, _, _ = gen_pair.t_instance(t, mpx, mpy, lang, 0, list('abcd'))
        # one side gets feature variables, the other different concrete values
        if t.chance(128):
            mx = t_to_var(t, mx, lang, 150)
            my = gen_cat.t_refeature(t, my, lang, 150)
        else:
            my = t_to_var(t, my, lang, 150)
            mx = gen_cat.t_refeature(t, mx, lang, 150)
    if t.chance(20):
        my = mx
        mode += '/self-pair'
    case = {'lang': lang, 'op': 'binary', 'x': jsonable(mx), 'y': jsonable(my), 'mode': mode, 'seen': None}
    sk = t.below(4)
    if sk == 1:
        key = (erase(mx, ('X', 'nb')), erase(my, ('X', 'nb')))
        others = [(t.pick(invs[lang]), t.pick(invs[lang])) for _ in range(t.below(4))]
        s = others + ([key] if t.chance(128) else []) + ([(mx, my)] if t.chance(60) else [])
        case['seen'] = [[jsonable(a), jsonable(b)] for a, b in s]
        case['mode'] += '/random-seen'
    elif sk == 2 and mode.startswith('inventory'):
        case['seen'] = 'shipped'
        case['mode'] += '/shipped-seen'
    return case


_state = {}


def _prepare():
    if _state:
        return _state
    invs = {
        'en': list(dict.fromkeys(read(s) for s in inventory.targets('en') + inventory.targets('en_rebank'))),
        'ja': list(dict.fromkeys(read(s) for s in inventory.targets('ja'))),
    }
    seens = {}
    for lang, which in (('en', 'en'), ('ja', 'ja')):
        pairs = inventory.seen_rules(which)
        ms = list(dict.fromkeys((erase(read(a), ('X', 'nb')), erase(read(b), ('X', 'nb'))) for a, b in pairs))
        seens[lang] = [[jsonable(a), jsonable(b)] for a, b in ms]
    _state.update(invs=invs, seens=seens)
    return _state


def _shard(ctx, shard, nshards, n_hash):
    st = _prepare()
    hash_seeds = [shard * n_hash + k for k in range(n_hash)]
    workers = Workers(hash_seeds)
    ctx.notes['hash_seeds_used'] = {str(h): 1 for h in hash_seeds}
    try:
        def factory():
            @seed(runner.hseed(ctx, 14))
            @runner.hsettings(ctx.scale(1500, 15000))
            @given(tapes(200))
            def test(data):
                case = build_case(data, st['invs'], st['seens'])
                info = {}
                light = case
                fails = check_case(case, workers, info)
                if case['op'] == 'unary':
                    nontriv = bool(info.get('fires'))
                else:
                    nontriv = (bool(info.get('fires')) and var_conflict_count(from_json(case['x']), from_json(case['y'])) >= 2) \
                        or ('seen_in' in info and bool(info.get('fires')))
                smp = {'lang': case['lang'], 'x': canon(from_json(case['x'])),
                       'y': canon(from_json(case['y'])) if case['op'] == 'binary' else None,
                       'mode': case['mode'], 'fires': info.get('fires'), 'seen_key_in_set': info.get('seen_in')}
                ctx.case(light, nontriv, cls=f"{case['lang']}/{case['mode']}" + ('/fires' if info.get('fires') else ''),
                         sample=smp)
                ctx.report(fails, case)
            return test
        ctx.hypothesis(factory)
    finally:
        workers.close()


def run(ctx):
    n = ctx.scale(8, 16)
    n_hash = 4
    ctx.shards(_shard, n, n, n_hash)
    ctx.notes['distinct_hash_seeds'] = len(ctx.notes.get('hash_seeds_used', {}))
    return RULE, 'exploration', [
        "Japanese rule functions are fed only categories with three-part features (plus the inventory's *START*/*END*)",
        'child interpreters cover PYTHONHASHSEED 0..N-1; other sources of cross-process variation (locale, threads) are not varied']
