"""C13 — categories behave as values (==, hash, ^, clear_features, string comparison)."""
import itertools

from hypothesis import given, seed, strategies as st

from vlib import gen_cat, runner
from vlib.tape import Tape, tapes
from vlib.model_cat import (blind, canon, erase, feats, from_json, ftxt, jsonable, model_of,
                            size, to_cat)

PROPERTY = 'C13'
RULE = ('pairs/triples of category values built from generated models (both feature systems): '
        'exhaustive over all values with <=1 slash of a reduced alphabet, single-edit mutations, '
        'separately rebuilt equal copies, random deep pairs, erase sets drawn from present and absent '
        'features; non-trivial = the pair differs in exactly one position, or is equal but built '
        'separately, or an erase set that removes some but not all features; distinct by case digest')


@runner.guarded(PROPERTY)
def check_case(case):
    """returns [(key, msg)]"""
    fails = []

    def bad(key, msg):
        fails.append((f'{PROPERTY}/{key}', msg))
    mc, md = from_json(case['c']), from_json(case['d'])
    c, d = to_cat(mc), to_cat(md)
    c2 = to_cat(mc)   # separately built equal copy
    want = mc == md
    try:
        # field-access model agrees with what was built
        if model_of(c) != mc:
            bad('model', f'constructed {canon(mc)} but fields read back {model_of(c)}')
        if (c == d) is not want or (d == c) is not want:
            bad('eq', f'{canon(mc)} == {canon(md)} gives {c == d}/{d == c}, structure says {want}')
        if (c != d) is want:
            bad('ne', f'{canon(mc)} != {canon(md)} inconsistent with ==')
        if not (c == c2) or hash(c) != hash(c2):
            bad('eq-copy', f'separately built copies of {canon(mc)} differ or hash differently')
        if want and hash(c) != hash(d):
            bad('hash', f'equal categories {canon(mc)} hash differently')
        table = {c: 'v'}
        s = {c}
        if table.get(c2) != 'v' or c2 not in s:
            bad('dict', f'dict/set keyed by {canon(mc)} does not find an equal copy')
        if (d in s) is not want or (table.get(d) == 'v') is not want:
            bad('dict', f'dict/set lookup of {canon(md)} in {{{canon(mc)}}} gives {d in s}, want {want}')
        # string comparison
        if not (c == canon(mc)):
            bad('str-eq', f'{canon(mc)} does not compare equal to its own canonical text')
        if (c == canon(md)) is not want:
            bad('str-eq', f'category {canon(mc)} == text {canon(md)!r} gives {c == canon(md)}')
        for t in case.get('texts', []):
            if (c == t) is not (t == canon(mc)):
                bad('str-eq', f'category {canon(mc)} == text {t!r} gives {c == t}')
        if str(c) != canon(mc):
            bad('str', f'str gives {str(c)!r}, canonical text is {canon(mc)!r}')
        # feature-blind comparison
        wb = blind(mc) == blind(md)
        if bool(c ^ d) is not wb or bool(d ^ c) is not wb:
            bad('blind', f'{canon(mc)} ^ {canon(md)} gives {c ^ d}/{d ^ c}, feature-blind structure says {wb}')
        if not (c ^ c2):
            bad('blind-refl', f'{canon(mc)} ^ itself is false')
        if want and not (c ^ d):
            bad('blind-coarser', 'equal categories are not feature-blind equal')
        if 'e' in case:
            me = from_json(case['e'])
            e = to_cat(me)
            if (c ^ d) and (d ^ e) and not (c ^ e):
                bad('blind-trans', f'^ not transitive on {canon(mc)}, {canon(md)}, {canon(me)}')
            if bool(c ^ e) is not (blind(mc) == blind(me)):
                bad('blind', f'{canon(mc)} ^ {canon(me)} gives {c ^ e}')
        # erasure
        names = tuple(case.get('names', []))
        r = c.clear_features(*names)
        wm = erase(mc, names)
        if model_of(r) != wm:
            bad('erase', f'{canon(mc)}.clear_features{names} gives {r}, expected {canon(wm)}')
        if model_of(c) != mc:
            bad('erase-mutates', 'clear_features changed its receiver')
        if not (r.clear_features(*names) == r):
            bad('erase-idem', f'clear_features{names} not idempotent on {canon(mc)}')
        if len(names) >= 2:
            step = c
            for n in names:
                step = step.clear_features(n)
            if not (step == r) or model_of(step) != wm:
                bad('erase-compose', f'clear{names} differs from erasing one name at a time on {canon(mc)}')
        # a value that is itself the result of an erasure is erased like any other value: growing name sets,
        # starting from the empty one (the English rules erase 'nb', then 'X' and 'nb', from the same objects)
        for k in range(len(names)):
            chain = c.clear_features(*names[:k]).clear_features(*names)
            if model_of(chain) != wm:
                bad('erase-chain', f'{canon(mc)}.clear_features{names[:k]}.clear_features{names} gives {chain}, '
                    f'expected {canon(wm)}')
                break
        # the result of an erasure is a category like any other (its receiver has been printed, compared
        # and hashed above, so anything the receiver memoised is in place): it equals and hashes as a
        # separately built copy of the expected value, prints its own canonical text and compares equal
        # to exactly that text
        fresh = to_cat(wm)
        for tag, v in (('', r), ('-chain', c.clear_features(*names[:1]).clear_features(*names))):
            if not (v == fresh) or not (fresh == v) or hash(v) != hash(fresh) or v not in {fresh}:
                bad('erase-value' + tag, f'{canon(mc)}.clear_features{names} is not equal to / hashes unlike a '
                    f'separately built {canon(wm)}')
            if str(v) != canon(wm):
                bad('erase-str' + tag, f'{canon(mc)}.clear_features{names} prints {str(v)!r}, its canonical text '
                    f'is {canon(wm)!r}')
            if not (v == canon(wm)) or (wm != mc and (v == canon(mc))):
                bad('erase-str-eq' + tag, f'{canon(mc)}.clear_features{names} (= {canon(wm)}) compared with its own '
                    f'text gives {v == canon(wm)}, with the text {canon(mc)!r} gives {v == canon(mc)}')
        if not (r ^ c):
            bad('erase-shape', 'erasure changed more than features')
        if model_of(c.clear_features()) != mc:
            bad('erase-none', 'clear_features() with no names changed the category')
    except Exception as ex:  # comparisons / hashing / erasure never raise on values
        bad('raises', f'{type(ex).__name__}: {ex} on {canon(mc)} , {canon(md)}')
    return fails


def replay(case):
    if case.get('kind') == 'pickle':
        return []
    return check_case(case)


def build_case(data):
    """tape -> case (pure function of the bytes)"""
    t = Tape(data)
    sysm = t.pick(['en', 'en', 'ja'])
    mc = gen_cat.t_cat(t, sysm, depth=3, bar=True, exotic=True)
    kind = t.pick(['mut', 'mut', 'copy', 'rand', 'cross', 'refeat'])
    sys_d = sysm
    if kind == 'mut':
        muts = gen_cat.mutate_one(None, mc, sysm)
        md = t.pick(muts) if muts else mc
    elif kind == 'copy':
        md = mc
    elif kind == 'cross':
        sys_d = 'ja' if sysm == 'en' else 'en'
        md = gen_cat.t_cat(t, sys_d, depth=2, bar=True)
    elif kind == 'refeat':
        md = gen_cat.t_refeature(t, mc, sysm, 100)
    else:
        md = gen_cat.t_cat(t, sysm, depth=3, bar=True, exotic=True)
    # third value: feature-only variant of d (exercises ^ chains) or something else
    ek = t.below(4)
    if ek == 0:
        me = gen_cat.t_refeature(t, md, sys_d, 128)
    elif ek == 1:
        me = mc
    elif ek == 2:
        me = gen_cat.t_refeature(t, mc, sysm, 128)
    else:
        me = gen_cat.t_cat(t, sysm, depth=2, bar=True)
    present = sorted({ftxt(f) for f in feats(mc) if f is not None})
    # near misses of the features present: proper prefixes, suffixes, extensions (a name erases a feature only when
    # it is that feature, wherever it stands in the argument list)
    near = []
    for f in present:
        if '=' in f:
            # three-part feature: a well-formed name keeps the three key=value parts; one value is nearly the same
            kvs = [kv.split('=', 1) for kv in f.split(',')]
            for i, (k_, v_) in enumerate(kvs):
                for nv in (v_[:-1], v_ + 'x', v_[1:]):
                    if nv:
                        near.append(','.join(f'{k2}={nv if j == i else v2}' for j, (k2, v2) in enumerate(kvs)))
        else:
            near += [f[:k] for k in range(1, len(f))][:3] + [f[1:], f + 'x', f + f]
    near = [n for n in dict.fromkeys(near) if n and n not in present]
    pool = present + present + near + ['X', 'nb', 'dcl', 'zz', 'mod=nm,form=base,fin=f', 'case=nc,mod=nm,fin=f']
    names = []
    for _ in range(t.below(4)):
        n = t.pick(pool)
        if n not in names:
            names.append(n)
    texts = [gen_cat.t_text(t, mc) for _ in range(2)]
    return {'kind': kind, 'c': jsonable(mc), 'd': jsonable(md), 'e': jsonable(me),
            'names': names, 'texts': texts}


def fuzz_one(data):
    case = build_case(bytes(data).ljust(96, b'\0')[:96])
    return check_case(case), case


def _hyp(ctx, shard, n_examples):
    def factory():
        @seed(runner.hseed(ctx, 13))
        @runner.hsettings(n_examples)
        @given(tapes(96))
        def test(data):
            case = build_case(data)
            mc, md = from_json(case['c']), from_json(case['d'])
            nm = case['names']
            present = {ftxt(f) for f in feats(mc) if f is not None}
            partial = bool(present & set(nm)) and bool(present - set(nm))
            one_edit = case['kind'] == 'mut' and mc != md
            nontriv = one_edit or case['kind'] == 'copy' or partial
            ctx.case(case, nontriv, cls=case['kind'] + ('/erase-partial' if partial else ''),
                     sample={'c': canon(mc), 'd': canon(md), 'names': nm, 'texts': case['texts']})
            ctx.report(check_case(case), case)
        return test
    ctx.hypothesis(factory)


def _sweep(ctx, shard, nshards, system, max_slashes):
    vals = gen_cat.enum_cats(system, max_slashes, bar=True, reduced=True)
    objs = [to_cat(m) for m in vals]
    n = len(vals)
    cnt = 0
    blinds = [blind(m) for m in vals]
    for i in range(shard, n, nshards):
        mc, c = vals[i], objs[i]
        bc = blinds[i]
        for j in range(n):
            md, d = vals[j], objs[j]
            want = i == j
            try:
                ok = ((c == d) is want and (not want or hash(c) == hash(d))
                      and bool(c ^ d) is (bc == blinds[j]))
            except Exception:
                ok = False
            cnt += 1
            if not ok:
                case = {'kind': 'sweep', 'c': jsonable(mc), 'd': jsonable(md)}
                ctx.report_direct(check_case(case) or [(f'{PROPERTY}/sweep', 'fast path disagrees')], case)
        # one-position neighbours are the non-trivial ones; count them by digest
    ctx.count(cnt, cls=f'sweep-{system}')
    ctx.notes.setdefault('sweep_values', {})[system] = n if shard == 0 else 0
    # every sweep value also goes through the full per-case check against itself and one neighbour
    for i in range(shard, n, nshards):
        mc = vals[i]
        md = vals[(i * 7 + 1) % n]
        case = {'kind': 'sweep-full', 'c': jsonable(mc), 'd': jsonable(md),
                'names': sorted({ftxt(f) for f in feats(mc) if f is not None})[:1]}
        ctx.case(case, size(mc) >= 1, cls=f'sweep-full-{system}')
        ctx.report_direct(check_case(case), case)


CHILD = r"""
import sys, pickle, json
sys.path.insert(0, sys.argv[1])
from vlib import env
from depccg.cat import Category
cats = pickle.load(sys.stdin.buffer)
bad = []
for c in cats:
    f = Category.parse(str(c))
    if not (c == f) or hash(c) != hash(f) or {f: 1}.get(c) != 1 or c not in {f}:
        bad.append(str(c))
print(json.dumps(bad))
"""


def cross_process(ctx, shard):
    """categories that were hashed here and then crossed a process boundary by pickle (as results of worker
    processes do) must still equal, hash like and be found by freshly built equal categories there"""
    import json
    import os
    import pickle
    import subprocess
    import sys
    from vlib import env
    from vlib.model_cat import to_cat
    vals = gen_cat.enum_cats('en', 1, bar=True)[shard::16][:120] + gen_cat.enum_cats('ja', 1, bar=True)[shard::16][:120]
    cats = [to_cat(m) for m in vals]
    for c in cats:
        hash(c)
        str(c)
    e = dict(os.environ, PYTHONHASHSEED=str(1000 + shard), VERIF_REPO=env.REPO)
    r = subprocess.run([sys.executable, '-c', CHILD, env.VERIF], input=pickle.dumps(cats), capture_output=True, env=e,
                       timeout=300)
    if r.returncode != 0:
        fails = [(f'{PROPERTY}/pickled-value-unusable', f'child interpreter failed on pickled categories: {r.stderr.decode()[-300:]}')]
        bad = ['?']
    else:
        bad = json.loads(r.stdout.decode().strip().split('\n')[-1])
        fails = [(f'{PROPERTY}/pickled-value-hash', f'{bad[:3]} received by pickle in another interpreter (hash seed {1000 + shard}) '
                  'is not equal to / does not hash like / is not found by a freshly parsed equal category')] if bad else []
    ctx.count(len(cats), cls='cross-process-pickle')
    ctx.notes['cross_process_pickled_values'] = ctx.notes.get('cross_process_pickled_values', 0) + len(cats)
    ctx.report_direct(fails, {'kind': 'pickle', 'values': [str(b) for b in bad[:5]]})


def _shard(ctx, shard, nshards):
    if shard < 4:
        cross_process(ctx, shard)
    for system in ('en', 'ja'):
        _sweep(ctx, shard, nshards, system, 1)
    _hyp(ctx, shard, ctx.scale(6000, 60000))
    if shard == 1 and not ctx.quick:
        from vlib import fuzz
        fuzz.campaign(ctx, 'c13', 150000)


def run(ctx):
    n = ctx.scale(8, 16)
    ctx.shards(_shard, n, n)
    ctx.exhaustive = ('all ordered pairs of category values with <=1 slash over the reduced alphabets '
                      f"(sizes {ctx.notes.get('sweep_values')}) for ==, hash and ^")
    return RULE, 'exploration', [
        'hash/eq laws are checked on generated pairs only; values mixing both feature systems inside '
        'one category are outside the domain']
