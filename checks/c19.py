"""C19 — whatever the parser can return can be rendered in every offered format."""
import argparse
import contextlib
import io
import json
import re
import sys

from hypothesis import given, seed

from vlib import gen_gram, gen_tok, gen_tree, native, runner
from vlib.model_cat import canon, read
from vlib.tape import Tape, tapes

PROPERTY = 'C19'
RULE = ('batches of 1-4 sentences mixing grammar-licensed derivations (covering every (label, symbol) the live rule '
        'functions return over the shipped seen-rule pairs, shipped unary tables and synthetic unary tables) with the '
        'failure placeholder obtained from a real failed parse; rendered in every format of the CLI choice lists of the '
        'language (read from depccg.argparse at run time; the two ccg2lambda formats need NLTK and are not rendered). '
        'Oracle: no exception; every line of the rendering of [A, B] appears, up to numbers, in that of [A, FAILED, B] (sentence '
        'numbering. non-trivial = a batch with a placeholder and a tree with a unary node; distinct by case digest')

_formats = None


def cli_formats():
    global _formats
    if _formats is not None:
        return _formats
    rec = {}
    orig = argparse._ActionsContainer.add_argument      # (parsers and argument groups alike)
    orig_group = argparse._ActionsContainer.add_argument_group
    orig_mutex = argparse._ActionsContainer.add_mutually_exclusive_group

    def spy_group(self, *a, **k):
        g = orig_group(self, *a, **k)
        g._verif_owner = self
        return g

    def spy_mutex(self, *a, **k):
        g = orig_mutex(self, *a, **k)
        g._verif_owner = self
        return g

    def spy(self, *a, **k):
        if '--format' in a or '-f' in a:
            owner = self
            while not getattr(owner, 'prog', None) and getattr(owner, '_verif_owner', None) is not None:
                owner = owner._verif_owner
            prog = (getattr(owner, 'prog', '') or '').split()
            if prog:
                rec[prog[-1]] = list(k.get('choices') or [])
        return orig(self, *a, **k)
    argparse._ActionsContainer.add_argument = spy
    argparse._ActionsContainer.add_argument_group = spy_group
    argparse._ActionsContainer.add_mutually_exclusive_group = spy_mutex
    old = sys.argv
    try:
        import depccg.argparse as A
        sys.argv = ['depccg']
        buf = io.StringIO()
        with contextlib.redirect_stdout(buf), contextlib.redirect_stderr(buf):
            try:
                try:
                    A.parse_args(lambda a: None)
                except TypeError:
                    A.parse_args()          # (a parse_args that hands the namespace back instead of calling a main)
            except SystemExit:
                pass
    finally:
        sys.argv = old
        argparse._ActionsContainer.add_argument = orig
        argparse._ActionsContainer.add_argument_group = orig_group
        argparse._ActionsContainer.add_mutually_exclusive_group = orig_mutex
    if 'en' not in rec or 'ja' not in rec:
        raise runner.HarnessError('could not read the --format choice lists from depccg.argparse')
    _formats = {lang: [f for f in fs if f not in ('ccg2lambda', 'jigg_xml_ccg2lambda')] for lang, fs in rec.items()}
    return _formats


_placeholder = {}


def placeholder(lang):
    """the failure placeholder exactly as a real failed parse returns it"""
    if lang not in _placeholder:
        native.setup()
        spec = {'kind': 'table', 'cats': ['A', 'B'], 'binary': [], 'unary': [], 'head_mode': 'left'}
        case = {'grammar': spec, 'tags': ['A', 'B'], 'roots': ['B'],
                'sentences': [{'words': ['x', 'y'], 'tag': [[0.0, -1.0], [0.0, -1.0]], 'dep': [[0.0] * 3, [0.0] * 3]}],
                'config': {'unary_penalty': 0.1, 'beta': 0.00001, 'use_beta': True, 'pruning_size': 50, 'nbest': 1,
                           'max_step': 1000, 'max_length': 250, 'processes': 2, 'max_chunk_size': 20}}
        res, docs, faults = native.run_parser(case, gen_gram.make_grammar(spec))
        if not (len(res[0]) == 1 and res[0][0].score == float('-inf')):
            raise runner.HarnessError('could not obtain the failure placeholder from a failed parse')
        _placeholder[lang] = res[0]
    import copy
    return copy.deepcopy(_placeholder[lang])


def content_lines(text):
    """multiset of the non-blank lines of a rendering with every run of digits replaced by '#': numbering of
    sentences, ids and offsets derived from a sentence's position, and scores all disappear; what is left is the
    content of the records, whatever the layout of the format"""
    import collections
    text = text.replace('><', '>\n<')           # (markup written without line breaks between elements)
    return collections.Counter(re.sub(r'\d+', '#', ln.strip()) for ln in text.split('\n') if ln.strip())


def build_batch(case):
    from depccg.tree import ScoredTree
    batch = []
    for sent in case['batch']:
        if sent == 'FAILED':
            batch.append(placeholder(case['system']))
        else:
            batch.append([ScoredTree(tr, -0.5 * (k + 1)) for k, tr in enumerate(gen_tree.sentence_trees(sent))])
    return batch


@runner.guarded(PROPERTY)
def check_case(case, info=None):
    from depccg.lang import set_global_language_to
    from depccg.printer import to_string
    fails = []

    def bad(key, msg):
        fails.append((f'{PROPERTY}/{key}', msg))
    system = case['system']
    set_global_language_to(system)
    try:
        has_fail = 'FAILED' in case['batch']
        parsed_only = dict(case, batch=[s for s in case['batch'] if s != 'FAILED'])
        the_batch = build_batch(case)        # one result object rendered in every offered format, as the CLI user would
        for fmt in cli_formats()[system]:
            try:
                text = to_string(the_batch, format=fmt)
            except Exception as ex:
                # which sentence is responsible?
                culprit = 'derivation'
                if has_fail:
                    try:
                        to_string(build_batch(parsed_only), format=fmt) if parsed_only['batch'] else None
                        culprit = 'placeholder'
                    except Exception:
                        culprit = 'derivation'
                labels = sorted({f'{l}' if l == s else f'{l}{s}' for sent in case['batch'] if sent != 'FAILED' for tc in sent
                                 for (l, s) in gen_tree.labels_of(gen_tree.deriv_from_json(tc['deriv']))})
                where = _innermost(ex)
                bad(f'{fmt}/{system}/raises-on-{culprit}/{type(ex).__name__}@{where}',
                    f'format {fmt} ({system}) raised {type(ex).__name__}: {ex} on a batch with labels {labels}'
                    + (' and a failed sentence' if has_fail else ''))
                continue
            if has_fail and parsed_only['batch']:
                try:
                    ref = to_string(build_batch(parsed_only), format=fmt)
                except Exception:
                    continue
                # nothing of the parsed sentences is lost when a failed sentence stands among them: every line of the
                # rendering of [A, B] appears, up to numbers, at least as often in the rendering of [A, FAILED, B]
                # (formats that put a whole document on one or two lines are not compared)
                if ref.count('\n') >= 3 * len(parsed_only['batch']):
                    missing = content_lines(ref) - content_lines(text)
                    if missing:
                        ln = next(iter(missing))
                        bad(f'{fmt}/{system}/failed-sentence-disturbs-others',
                            f'format {fmt}: with a failed sentence in the batch the rendering lacks {sum(missing.values())} '
                            f'line(s) of the parsed sentences, e.g. {ln[:120]!r}')
    finally:
        set_global_language_to('en')
    return fails


def _innermost(ex):
    import traceback
    import os
    tb = traceback.extract_tb(ex.__traceback__)
    for fr in reversed(tb):
        if '/depccg/' in fr.filename:
            return f'{os.path.basename(fr.filename)}:{fr.name}'
    return 'unknown'


def replay(case):
    return check_case(case)


_labels = {}


def label_space(lang):
    """every (label, symbol) the live rule functions return: seen-rule pairs + shipped unary + synthetic unary"""
    if lang in _labels:
        return _labels[lang]
    idx = gen_tree.rule_index(lang)
    labels = list(idx.by_label)
    synth = []
    if lang == 'ja':
        from depccg.grammar import ja
        from vlib.model_cat import to_cat, model_of
        from checks.c04 import synthetic_unary_inputs
        target = read('NP[case=nc,mod=X1,fin=X2]/NP[case=nc,mod=X1,fin=X2]')
        for m in synthetic_unary_inputs():
            try:
                rs = ja.apply_unary_rules(to_cat(m), {to_cat(m): [to_cat(target)]})
            except Exception:
                continue
            for r in rs:
                synth.append((m, model_of(r.cat), r.op_string, r.op_symbol))
                if (r.op_string, r.op_symbol) not in labels:
                    labels.append((r.op_string, r.op_symbol))
    _labels[lang] = (labels, synth)
    return _labels[lang]


def build_case(data):
    t = Tape(data)
    system = t.pick(['en', 'ja'])
    idx = gen_tree.rule_index(system)
    labels, synth = label_space(system)
    nsent = t.int(1, 4)
    batch = []
    for _ in range(nsent):
        k = t.weighted([(2, 'failed'), (5, 'label'), (3, 'free'), (2 if synth else 0, 'synthetic-unary')])
        if k == 'failed':
            batch.append('FAILED')
            continue
        d = None
        if k == 'label':
            d = gen_tree.t_derivation_with_label(t, idx, t.pick(labels), max_leaves=5)
        elif k == 'synthetic-unary' and synth:
            x, res, lab, sym = t.pick(synth)
            d = ('B', res, ('U', res, gen_tree.t_derivation(t, idx, 3, root=x), lab, sym), ('L', res), 'fa', '>', False) \
                if t.chance(100) else ('U', res, gen_tree.t_derivation(t, idx, 3, root=x), lab, sym)
        if d is None:
            d = gen_tree.t_derivation(t, idx, max_leaves=5)
        n = gen_tree.size_of(d)
        toks = [gen_tok.t_token_variant(t, system, '') for _ in range(n)]
        tc = {'system': system, 'licensed': True, 'deriv': gen_tree.deriv_json(d), 'tokens': toks}
        sent = [tc]
        if t.chance(50):
            sent.append(dict(tc))
        batch.append(sent)
    return {'system': system, 'batch': batch}


def _shard(ctx, shard, nshards):
    native.setup()
    cli_formats()
    for lang in ('en', 'ja'):
        label_space(lang)
        placeholder(lang)
    if shard == 0:
        ctx.notes['cli_formats_rendered'] = cli_formats()
        ctx.notes['label_space'] = {lang: [list(l) for l in label_space(lang)[0]] for lang in ('en', 'ja')}
    covered = ctx.notes.setdefault('labels_rendered', {})

    def factory():
        @seed(runner.hseed(ctx, 19))
        @runner.hsettings(ctx.scale(700, 12000))
        @given(tapes(1500))
        def test(data):
            case = build_case(data)
            has_fail = 'FAILED' in case['batch']
            derivs = [gen_tree.deriv_from_json(tc['deriv']) for s in case['batch'] if s != 'FAILED' for tc in s]
            for d in derivs:
                for lab in gen_tree.labels_of(d):
                    key = f"{case['system']}:{lab[0]}:{lab[1]}"
                    covered[key] = covered.get(key, 0) + 1
            unary = any(gen_tree.has_unary(d) for d in derivs)
            cls = f"{case['system']}/sentences={len(case['batch'])}" + ('/with-failed' if has_fail else '') + \
                ('/unary' if unary else '')
            ctx.case(case, has_fail and unary, cls=cls,
                     sample={'system': case['system'], 'batch': ['FAILED' if s == 'FAILED' else
                                                                 [w['word'] for w in s[0]['tokens']] for s in case['batch']]})
            ctx.report(check_case(case), case)
        return test
    ctx.hypothesis(factory)


def run(ctx):
    native.setup()       # translate + compile once, before the shard processes fork
    n = ctx.scale(8, 16)
    ctx.shards(_shard, n, n)
    space = ctx.notes.get('label_space', {})
    cov = ctx.notes.get('labels_rendered', {})
    missing = [f'{lang}:{l[0]}:{l[1]}' for lang, ls in space.items() for l in ls if f'{lang}:{l[0]}:{l[1]}' not in cov]
    ctx.notes['labels_never_rendered'] = missing
    return RULE, 'exploration', [
        'the ccg2lambda and jigg_xml_ccg2lambda formats need NLTK\'s logic parser and are not rendered',
        'the label space is what the live rule functions return on the shipped seen-rule pairs, the shipped unary tables '
        'and bounded synthetic unary inputs']
