"""C19 — whatever the parser can return can be rendered in every offered format."""
import argparse
import contextlib
import io
import json
import re
import sys

from hypothesis import given, seed

from vlib import gen_gram, gen_tok, gen_tree, native, runner
from vlib.model_cat import canon, read
from vlib.tape import Tape, tapes

PROPERTY = 'C19'
RULE = ('batches of 1-4 sentences mixing grammar-licensed derivations (covering every (label, symbol) the live rule '
        'functions return over the shipped seen-rule pairs, shipped unary tables and synthetic unary tables) with the '
        'failure placeholder obtained from a real failed parse; rendered in every format of the CLI choice lists of the '
        'language (read from depccg.argparse at run time; the two ccg2lambda formats need NLTK and are not rendered). '
        'Oracle: no exception; the records of the parsed sentences in [A, FAILED, B] equal those in [A, B] up to sentence '
        'numbering. non-trivial = a batch with a placeholder and a tree with a unary node; distinct by case digest')

_formats = None


def cli_formats():
    global _formats
    if _formats is not None:
        return _formats
    rec = {}
    orig = argparse._ActionsContainer.add_argument      # (parsers and argument groups alike)
    orig_group = argparse._ActionsContainer.add_argument_group
    orig_mutex = argparse._ActionsContainer.add_mutually_exclusive_group

    def spy_group(self, *a, **k):
        g = orig_group(self, *a, **k)
        g._verif_owner = self
        return g

    def spy_mutex(self, *a, **k):
        g = orig_mutex(self, *a, **k)
        g._verif_owner = self
        return g

    def spy(self, *a, **k):
        if '--format' in a or '-f' in a:
            owner = self
            while not getattr(owner, 'prog', None) and getattr(owner, '_verif_owner', None) is not None:
                owner = owner._verif_owner
            prog = (getattr(owner, 'prog', '') or '').split()
            if prog:
                rec[prog[-1]] = list(k.get('choices') or [])
        return orig(self, *a, **k)
    argparse._ActionsContainer.add_argument = spy
    argparse._ActionsContainer.add_argument_group = spy_group
    argparse._ActionsContainer.add_mutually_exclusive_group = spy_mutex
    old = sys.argv
    try:
        import depccg.argparse as A
        sys.argv = ['depccg']
        buf = io.StringIO()
        with contextlib.redirect_stdout(buf), contextlib.redirect_stderr(buf):
            try:
                A.parse_args(lambda a: None)
            except SystemExit:
                pass
    finally:
        sys.argv = old
        argparse._ActionsContainer.add_argument = orig
        argparse._ActionsContainer.add_argument_group = orig_group
        argparse._ActionsContainer.add_mutually_exclusive_group = orig_mutex
    if 'en' not in rec or 'ja' not in rec:
        raise runner.HarnessError('could not read the --format choice lists from depccg.argparse')
    _formats = {lang: [f for f in fs if f not in ('ccg2lambda', 'jigg_xml_ccg2lambda')] for lang, fs in rec.items()}
    return _formats


_placeholder = {}


def placeholder(lang):
    """the failure placeholder exactly as a real failed parse returns it"""
    if lang not in _placeholder:
        native.setup()
        spec = {'kind': 'table', 'cats': ['A', 'B'], 'binary': [], 'unary': [], 'head_mode': 'left'}
        case = {'grammar': spec, 'tags': ['A', 'B'], 'roots': ['B'],
                'sentences': [{'words': ['x', 'y'], 'tag': [[0.0, -1.0], [0.0, -1.0]], 'dep': [[0.0] * 3, [0.0] * 3]}],
                'config': {'unary_penalty': 0.1, 'beta': 0.00001, 'use_beta': True, 'pruning_size': 50, 'nbest': 1,
                           'max_step': 1000, 'max_length': 250, 'processes': 2, 'max_chunk_size': 20}}
        res, docs, faults = native.run_parser(case, gen_gram.make_grammar(spec))
        if not (len(res[0]) == 1 and res[0][0].score == float('-inf')):
            raise runner.HarnessError('could not obtain the failure placeholder from a failed parse')
        _placeholder[lang] = res[0]
    import copy
    return copy.deepcopy(_placeholder[lang])


def records(fmt, text):
    """split a rendering into per-sentence records with the sentence number removed"""
    if fmt in ('auto', 'auto_extended', 'deriv', 'ptb', 'ja', 'conll'):
        out = {}
        cur = None
        for line in text.split('\n'):
            m = re.match(r'^(?:# )?ID=(\d+)(.*)$', line)
            if m:
                cur = int(m.group(1))
                out.setdefault(cur, []).append('ID' + m.group(2))
            elif cur is not None:
                out[cur].append(line)
        for k in out:
            while out[k] and out[k][-1] == '':
                out[k].pop()
        return out
    if fmt == 'json':
        d = json.loads(text)
        return {int(k): v for k, v in d.items()}
    if fmt == 'xml':
        from lxml import etree
        root = etree.fromstring(text.encode('utf-8'))
        out = {}
        for ccg in root.xpath('ccg'):
            s = int(ccg.get('sentence'))
            ccg.attrib.pop('sentence')
            ccg.tail = None
            out.setdefault(s, []).append(etree.tostring(ccg, encoding='unicode'))
        return out
    if fmt == 'jigg_xml':
        from lxml import etree
        root = etree.fromstring(text.encode('utf-8'))
        out = {}
        for i, sent in enumerate(root.xpath('//sentence')):
            sent.tail = None
            # every identifier built from the sentence's position may differ (s3_1, s3_sp0, s3_ccg0, a bare s3);
            # identifiers live in the reference attributes, token text is left alone
            for el in sent.iter():
                for k in ('id', 'child', 'terminal', 'root'):
                    if el.get(k) is not None:
                        el.set(k, re.sub(r'\bs%d(?=_|\b)' % i, 's#', el.get(k)))
            out[i + 1] = etree.tostring(sent, encoding='unicode')
        return out
    if fmt == 'html':
        parts = re.split(r'<p>ID=(\d+):', text)
        out = {}
        for k in range(1, len(parts) - 1, 2):
            out[int(parts[k])] = parts[k + 1].split('</body>')[0].strip()
        return out
    if fmt == 'prolog':
        parts = re.split(r'^ccg\((\d+),', text, flags=re.M)
        out = {}
        for k in range(1, len(parts) - 1, 2):
            out.setdefault(int(parts[k]), []).append(parts[k + 1].strip())
        return out
    return None         # a format this harness has no record splitter for: it is rendered, its records are not compared


def build_batch(case):
    from depccg.tree import ScoredTree
    batch = []
    for sent in case['batch']:
        if sent == 'FAILED':
            batch.append(placeholder(case['system']))
        else:
            batch.append([ScoredTree(tr, -0.5 * (k + 1)) for k, tr in enumerate(gen_tree.sentence_trees(sent))])
    return batch


@runner.guarded(PROPERTY)
def check_case(case, info=None):
    from depccg.lang import set_global_language_to
    from depccg.printer import to_string
    fails = []

    def bad(key, msg):
        fails.append((f'{PROPERTY}/{key}', msg))
    system = case['system']
    set_global_language_to(system)
    try:
        has_fail = 'FAILED' in case['batch']
        parsed_only = dict(case, batch=[s for s in case['batch'] if s != 'FAILED'])
        the_batch = build_batch(case)        # one result object rendered in every offered format, as the CLI user would
        for fmt in cli_formats()[system]:
            try:
                text = to_string(the_batch, format=fmt)
            except Exception as ex:
                # which sentence is responsible?
                culprit = 'derivation'
                if has_fail:
                    try:
                        to_string(build_batch(parsed_only), format=fmt) if parsed_only['batch'] else None
                        culprit = 'placeholder'
                    except Exception:
                        culprit = 'derivation'
                labels = sorted({f'{l}' if l == s else f'{l}{s}' for sent in case['batch'] if sent != 'FAILED' for tc in sent
                                 for (l, s) in gen_tree.labels_of(gen_tree.deriv_from_json(tc['deriv']))})
                where = _innermost(ex)
                bad(f'{fmt}/{system}/raises-on-{culprit}/{type(ex).__name__}@{where}',
                    f'format {fmt} ({system}) raised {type(ex).__name__}: {ex} on a batch with labels {labels}'
                    + (' and a failed sentence' if has_fail else ''))
                continue
            if has_fail and parsed_only['batch']:
                try:
                    ref = to_string(build_batch(parsed_only), format=fmt)
                except Exception:
                    continue
                a = records(fmt, text)
                b = records(fmt, ref)
                if a is None or b is None:
                    continue
                keep = [i + 1 for i, s in enumerate(case['batch']) if s != 'FAILED']
                got = [a.get(i) for i in keep]
                want = [b.get(j + 1) for j in range(len(keep))]
                if got != want:
                    bad(f'{fmt}/{system}/failed-sentence-disturbs-others',
                        f'format {fmt}: the records of the parsed sentences differ when a failed sentence is in the batch')
    finally:
        set_global_language_to('en')
    return fails


def _innermost(ex):
    import traceback
    import os
    tb = traceback.extract_tb(ex.__traceback__)
    for fr in reversed(tb):
        if '/depccg/' in fr.filename:
            return f'{os.path.basename(fr.filename)}:{fr.name}'
    return 'unknown'


def replay(case):
    return check_case(case)


_labels = {}


def label_space(lang):
    """every (label, symbol) the live rule functions return: seen-rule pairs + shipped unary + synthetic unary"""
    if lang in _labels:
        return _labels[lang]
    idx = gen_tree.rule_index(lang)
    labels = list(idx.by_label)
    synth = []
    if lang == 'ja':
        from depccg.grammar import ja
        from vlib.model_cat import to_cat, model_of
        from checks.c04 import synthetic_unary_inputs
        target = read('NP[case=nc,mod=X1,fin=X2]/NP[case=nc,mod=X1,fin=X2]')
        for m in synthetic_unary_inputs():
            try:
                rs = ja.apply_unary_rules(to_cat(m), {to_cat(m): [to_cat(target)]})
            except Exception:
                continue
            for r in rs:
                synth.append((m, model_of(r.cat), r.op_string, r.op_symbol))
                if (r.op_string, r.op_symbol) not in labels:
                    labels.append((r.op_string, r.op_symbol))
    _labels[lang] = (labels, synth)
    return _labels[lang]


def build_case(data):
    t = Tape(data)
    system = t.pick(['en', 'ja'])
    idx = gen_tree.rule_index(system)
    labels, synth = label_space(system)
    nsent = t.int(1, 4)
    batch = []
    for _ in range(nsent):
        k = t.weighted([(2, 'failed'), (5, 'label'), (3, 'free'), (2 if synth else 0, 'synthetic-unary')])
        if k == 'failed':
            batch.append('FAILED')
            continue
        d = None
        if k == 'label':
            d = gen_tree.t_derivation_with_label(t, idx, t.pick(labels), max_leaves=5)
        elif k == 'synthetic-unary' and synth:
            x, res, lab, sym = t.pick(synth)
            d = ('B', res, ('U', res, gen_tree.t_derivation(t, idx, 3, root=x), lab, sym), ('L', res), 'fa', '>', False) \
                if t.chance(100) else ('U', res, gen_tree.t_derivation(t, idx, 3, root=x), lab, sym)
        if d is None:
            d = gen_tree.t_derivation(t, idx, max_leaves=5)
        n = gen_tree.size_of(d)
        toks = [gen_tok.t_token_variant(t, system, '') for _ in range(n)]
        tc = {'system': system, 'licensed': True, 'deriv': gen_tree.deriv_json(d), 'tokens': toks}
        sent = [tc]
        if t.chance(50):
            sent.append(dict(tc))
        batch.append(sent)
    return {'system': system, 'batch': batch}


def _shard(ctx, shard, nshards):
    native.setup()
    cli_formats()
    for lang in ('en', 'ja'):
        label_space(lang)
        placeholder(lang)
    if shard == 0:
        ctx.notes['cli_formats_rendered'] = cli_formats()
        ctx.notes['label_space'] = {lang: [list(l) for l in label_space(lang)[0]] for lang in ('en', 'ja')}
    covered = ctx.notes.setdefault('labels_rendered', {})

    def factory():
        @seed(runner.hseed(ctx, 19))
        @runner.hsettings(ctx.scale(700, 12000))
        @given(tapes(1500))
        def test(data):
            case = build_case(data)
            has_fail = 'FAILED' in case['batch']
            derivs = [gen_tree.deriv_from_json(tc['deriv']) for s in case['batch'] if s != 'FAILED' for tc in s]
            for d in derivs:
                for lab in gen_tree.labels_of(d):
                    key = f"{case['system']}:{lab[0]}:{lab[1]}"
                    covered[key] = covered.get(key, 0) + 1
            unary = any(gen_tree.has_unary(d) for d in derivs)
            cls = f"{case['system']}/sentences={len(case['batch'])}" + ('/with-failed' if has_fail else '') + \
                ('/unary' if unary else '')
            ctx.case(case, has_fail and unary, cls=cls,
                     sample={'system': case['system'], 'batch': ['FAILED' if s == 'FAILED' else
                                                                 [w['word'] for w in s[0]['tokens']] for s in case['batch']]})
            ctx.report(check_case(case), case)
        return test
    ctx.hypothesis(factory)


def run(ctx):
    native.setup()       # translate + compile once, before the shard processes fork
    n = ctx.scale(8, 16)
    ctx.shards(_shard, n, n)
    space = ctx.notes.get('label_space', {})
    cov = ctx.notes.get('labels_rendered', {})
    missing = [f'{lang}:{l[0]}:{l[1]}' for lang, ls in space.items() for l in ls if f'{lang}:{l[0]}:{l[1]}' not in cov]
    ctx.notes['labels_never_rendered'] = missing
    return RULE, 'exploration', [
        'the ccg2lambda and jigg_xml_ccg2lambda formats need NLTK\'s logic parser and are not rendered',
        'the label space is what the live rule functions return on the shipped seen-rule pairs, the shipped unary tables '
        'and bounded synthetic unary inputs']
