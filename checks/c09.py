"""C09 — the reported score is the model score of the returned tree."""
from hypothesis import given, seed

from vlib import gen_sent, native, parser_checks as pc, runner
from vlib.tape import Tape, tapes

PROPERTY = 'C09'
RULE = ('same generators as C02 (synthetic tables incl. mixed head directions, real en/ja grammars, n-best 1-6, all '
        'unary penalties); oracle = score recomputed from each returned tree by the statement (leaf tag scores + '
        'dependency score of every non-head child to its head as given by the tree\'s own head flags + root attachment '
        '- unary penalty per unary node), exact in the dyadic class; non-trivial = tree with a unary node, or with '
        '>=2 binary nodes of which one is right-headed; distinct by case digest')


@runner.guarded(PROPERTY)
def check_case(case, info=None):
    ev = pc.evaluate(case)
    fails = []
    if ev.exception is not None:
        if float(case['config']['unary_penalty']) < 0:
            # a library that refuses a negative penalty returns no tree, so no score is wrong: if the same call is
            # accepted with the penalty's absolute value, the case is outside what the library accepts
            ev2 = pc.evaluate(dict(case, config=dict(case['config'], unary_penalty=abs(case['config']['unary_penalty']))))
            if ev2.exception is None:
                raise runner.OutOfDomain('negative unary penalties are refused')
        return [(f'{PROPERTY}/parser-raises/{type(ev.exception).__name__}', str(ev.exception))]
    fails += pc.score_fails(ev, PROPERTY)
    fails += pc.placeholder_score_fails(ev, PROPERTY)
    if info is not None:
        info.update(pc.tree_stats(ev), n=ev.n, placeholder=ev.placeholder, ntrees=len(ev.trees or []),
                    scores=[float(s.score) for s in (ev.trees or [])][:3])
    return fails


def replay(case):
    native.setup()
    return check_case(case)


def build_case(data, mode):
    if mode == 'long':
        return gen_sent.t_long_case(Tape(data))
    case = _build_case(data, mode)
    # validity / score accounting do not depend on completeness of the search: bound the n-best search,
    # which otherwise explores every derivation when fewer than nbest parses exist
    case['config']['max_step'] = 20000
    # the accounting is stated for every unary penalty: in a quarter of the cases a negative one (a bonus per unary
    # node; the search is then no longer guaranteed optimal, but a score must still be the score of its tree)
    tail = data[-12] if len(data) >= 12 else 0
    if tail % 4 == 0:
        case['config']['unary_penalty'] = -[0.5, 0.125, 1.0, 0.25][(tail // 4) % 4]
    return case


def _build_case(data, mode):
    t = Tape(data)
    if mode == 'table':
        return gen_sent.t_table_case(t, head_modes=('left', 'right', 'mixed', 'mixed'), n_max=t.pick([3, 4, 5, 6]),
                                     T_max=5, K_max=8, nbest_max=6)
    return gen_sent.t_real_case(t, t.pick(['en', 'ja']), n_max=5, nbest_max=4)


def _shard(ctx, shard, nshards):
    native.setup()
    for mode, n_examples, size in (('table', ctx.scale(1000, 20000), 700), ('real', ctx.scale(80, 1500), 700),
                                  ('long', ctx.scale(3, 30), 400)):
        def factory(mode=mode, n_examples=n_examples, size=size):
            @seed(runner.hseed(ctx, {'table': 9, 'real': 109, 'long': 209}[mode]))
            @runner.hsettings(n_examples)
            @given(tapes(size))
            def test(data):
                case = build_case(data, mode)
                info = {}
                fails = check_case(case, info)
                nontriv = info.get('unary', 0) >= 1 or (info.get('binary', 0) >= 2 and info.get('nonleft_heads', 0) >= 1)
                cls = f"{case['grammar']['kind']}/{case['head_mode']}/{case['numeric']}/" + \
                    ('failed' if info.get('placeholder') else 'parsed') + ('/unary' if info.get('unary') else '') + \
                    ('/right-heads' if info.get('nonleft_heads') else '')
                ctx.case(case, nontriv, cls=cls, sample={
                    'n': info.get('n'), 'config': case['config'], 'scores': info.get('scores'),
                    'binary_nodes': info.get('binary'), 'unary_nodes': info.get('unary'),
                    'right_headed_nodes': info.get('nonleft_heads')})
                ctx.report(fails, case)
            return test
        ctx.hypothesis(factory)


def run(ctx):
    native.setup()       # translate + compile once, before the shard processes fork
    ctx.shards(_shard, 16, 16)
    return RULE, 'exploration', [
        'exact comparison in the dyadic score class; tolerance 1e-4 relative for log-softmax / flattened scores',
        'Cython semantics of parsing.pyx are emulated by the pyxlite translator']
