"""C17 — the category dictionary restricts exactly the listed words; shipped tables are applicable."""
import numpy as np
from hypothesis import given, seed

from vlib import env, gen_sent, inventory, jsonnet_lite, runner
from vlib.model_cat import canon, read
from vlib.tape import Tape, tapes

PROPERTY = 'C17'
RULE = ('documents of 1-4 sentences (repeated words, words absent from the dictionary, the single-sentence calling form) '
        'x category lists x dictionaries (empty, one-category, all-category entries) x float32 score matrices: the filter '
        'output is compared cell by cell with a model computed on a copy; plus an exhaustive sweep of the shipped files: '
        'every cat_dict.en category belongs to targets.en, every category string of every shipped table parses, '
        'round-trips and is hashable, and read_params (through the functional Params stub) returns tables that find '
        'them; non-trivial = a document with a listed and an unlisted word and an entry that keeps >=1 and masks >=1 '
        'category; distinct by case digest')

CATS = ['NP', 'N', 'S[dcl]\\NP', '(S[dcl]\\NP)/NP', 'NP[nb]/N', 'N/N', '.', ',', 'S[dcl]', 'PP/NP']
VOCAB = ['a', 'b', 'c', 'the', '(', "it's", 'Ω', 'dog']


@runner.guarded(PROPERTY)
def check_case(case, info=None):
    import depccg.parsing as P
    from depccg.cat import Category
    from depccg.types import ScoringResult, Token
    fails = []

    def bad(key, msg):
        fails.append((f'{PROPERTY}/{key}', msg))
    cats = [Category.parse(c) for c in case['cats']]
    cd = {w: [Category.parse(c) for c in cs] for w, cs in case['dict'].items()}
    docs = [[Token.of_word(w) for w in ws] for ws in case['docs']]
    def layout(a):
        k = case.get('layout', 'c')
        if k == 'fortran':
            return np.asfortranarray(a)
        if k == 'slice':
            wide = np.zeros((a.shape[0], a.shape[1] + 3), dtype=a.dtype)
            wide[:, :a.shape[1]] = a
            return wide[:, :a.shape[1]]
        if k == 'transposed':
            return np.ascontiguousarray(a.T).T
        if k == 'float64':
            return a.astype(np.float64)
        return a
    scs = [ScoringResult(layout(np.array(tg, dtype=np.float32).reshape(len(ws), len(cats))),
                         np.array(dp, dtype=np.float32).reshape(len(ws), len(ws) + 1))
           for ws, tg, dp in zip(case['docs'], case['tag'], case['dep'])]
    orig = [(s.tag_scores.copy(), s.dep_scores.copy()) for s in scs]
    single = case.get('single') and len(docs) == 1
    lnv = case.get('large_negative_value')
    kw = {} if lnv is None else {'large_negative_value': lnv}
    try:
        d2, s2 = P.apply_category_filters(docs[0] if single else docs, scs[0] if single else scs, cats, cd, **kw)
    except Exception as ex:
        bad(f'raises/{type(ex).__name__}', f'{type(ex).__name__}: {ex} (dictionary sizes {[len(v) for v in cd.values()]})')
        return fails
    if single and len(docs) == 1 and not isinstance(s2, list):
        d2, s2 = [d2], [s2]         # (the one-sentence calling form may hand back the sentence itself)
    if lnv is None:
        # "the large negative value" when none is passed is the function's own: read off the output (the first cell
        # that has to be masked), required to be large and negative and to be the one value used everywhere
        neg = None
        try:
            for (ot, _od), s_, ws_ in zip(orig, s2, case['docs']):
                for i_, w_ in enumerate(ws_):
                    if w_ in case['dict']:
                        for j_, c_ in enumerate(case['cats']):
                            if c_ not in case['dict'][w_]:
                                neg = np.float32(s_[0][i_, j_])
                                raise StopIteration
        except StopIteration:
            pass
        except Exception:
            neg = None
        if neg is None:
            neg = np.float32(-10e+32)
        elif not neg <= -1e10:
            bad('large-negative-value', f'a masked cell holds {neg!r}, which is not a large negative value')
    else:
        neg = np.float32(lnv)
    if len(d2) != len(docs) or len(s2) != len(docs):
        bad('shape', f'returned {len(d2)} documents / {len(s2)} score results for {len(docs)} sentences')
        return fails
    partial = False
    for k, ((ot, od), s, ws, d) in enumerate(zip(orig, s2, case['docs'], d2)):
        exp = ot.copy()
        for i, w in enumerate(ws):
            if w in case['dict']:
                listed = case['dict'][w]
                for j, c in enumerate(case['cats']):
                    if c not in listed:
                        exp[i, j] = neg
                if 0 < len(listed) < len(case['cats']):
                    partial = True
        got_t, got_d = s[0], s[1]
        if [t.word for t in d] != ws or any(dict(t) != dict(Token.of_word(w)) for t, w in zip(d, ws)):
            bad('tokens-changed', f'sentence {k}: tokens {[t.word for t in d]} differ from the input {ws}')
        if got_t.shape != exp.shape or not np.array_equal(np.asarray(exp, dtype=np.float32), np.asarray(got_t, dtype=np.float32)):
            diff = np.argwhere(np.asarray(exp, dtype=np.float32) != np.asarray(got_t, dtype=np.float32))[:3].tolist() if got_t.shape == exp.shape else 'shape'
            i, j = (diff[0] if isinstance(diff, list) and diff else (0, 0))
            kind = 'shape'
            if isinstance(diff, list) and diff:
                w = ws[i]
                if w not in case['dict']:
                    kind = 'unlisted-word-touched'
                elif case['cats'][j] in case['dict'][w]:
                    kind = 'listed-category-masked'
                else:
                    kind = 'unlisted-category-kept'
            bad(f'tag-scores/{kind}', f'sentence {k} words {ws}: tag scores differ from the model at {diff}; '
                f'dictionary {case["dict"]}')
        if not np.array_equal(od, got_d):
            bad('dep-scores-touched', f'sentence {k}: dependency scores changed')
    # the same Token objects after their words were changed through the dict interface (a document that is
    # re-tokenised or corrected in place and filtered again): the filter goes by the words the tokens have NOW
    if not fails and not single and any(len(ws) >= 2 for ws in case['docs']):
        new_docs = [ws[1:] + ws[:1] for ws in case['docs']]
        for d, ws in zip(docs, new_docs):
            for k2, (tok, w) in enumerate(zip(d, ws)):
                if k2 % 2:
                    tok.update(word=w)
                else:
                    tok.pop('word')
                    tok.update({'word': w})
        scs3 = [ScoringResult(layout(ot.copy()), od.copy()) for ot, od in orig]
        try:
            d3, s3 = P.apply_category_filters(docs, scs3, cats, cd, **kw)
        except Exception as ex:
            bad(f'second-pass/raises/{type(ex).__name__}', f'{type(ex).__name__}: {ex}')
            d3 = s3 = None
        if s3 is not None:
            for k, ((ot, od), s, ws) in enumerate(zip(orig, s3, new_docs)):
                exp = ot.copy()
                for i, w in enumerate(ws):
                    if w in case['dict']:
                        for j, c in enumerate(case['cats']):
                            if c not in case['dict'][w]:
                                exp[i, j] = neg
                if s[0].shape != exp.shape or not np.array_equal(np.asarray(exp, dtype=np.float32), np.asarray(s[0], dtype=np.float32)):
                    bad('second-pass/stale-words', f'sentence {k}: after the tokens\' words were changed in place to {ws} '
                        f'the filter masked by other words (dictionary {case["dict"]})')
                    break
    if info is not None:
        words = [w for ws in case['docs'] for w in ws]
        info['nontrivial'] = partial and any(w in case['dict'] for w in words) and any(w not in case['dict'] for w in words)
        info['single'] = bool(single)
    return fails


def replay(case):
    if case.get('kind') == 'sweep':
        return sweep_fails(only=case.get('what'))
    return check_case(case)


def build_case(data):
    t = Tape(data)
    T = t.int(1, len(CATS))
    # the inventory is drawn per case (subset in a drawn order): successive calls in one process see
    # different inventories of the same length, as two models' tag sets would
    pool = list(CATS)
    cats = []
    for _ in range(T):
        cats.append(pool.pop(t.below(len(pool))))
    cd = {}
    for w in VOCAB:
        if t.chance(120):
            mode = t.below(4)
            if mode == 0:
                cd[w] = [c for c in cats if t.chance(110)]
            elif mode == 1:
                cd[w] = [t.pick(cats)]
            elif mode == 2:
                cd[w] = list(cats)
            else:
                cd[w] = [c for c in reversed(cats) if t.chance(150)]
    nd = t.int(1, 4)
    docs, tag, dep = [], [], []
    for _ in range(nd):
        n = t.int(1, 5)
        ws = [t.pick(VOCAB) for _ in range(n)]
        docs.append(ws)
        tag.append([[-t.below(400) / 16 for _ in range(T)] for _ in range(n)])
        dep.append([[-t.below(400) / 16 for _ in range(n + 1)] for _ in range(n)])
    return {'cats': cats, 'dict': cd, 'docs': docs, 'tag': tag, 'dep': dep, 'single': t.chance(128),
            'large_negative_value': t.pick([None, None, -1000.0]),
            'layout': t.pick(['c', 'c', 'c', 'fortran', 'slice', 'transposed', 'float64'])}


# ------------------------------------------------------------------ shipped files
@runner.guarded(PROPERTY)
def sweep_fails(only=None, stats=None):
    from depccg.cat import Category
    fails = []

    def bad(key, msg):
        fails.append((f'{PROPERTY}/{key}', msg))
    stats = stats if stats is not None else {}
    # 1. mini-jsonnet loader vs regex extraction of string literals
    for fn in ('targets.en.jsonnet', 'targets.ja.jsonnet', 'unary_rules.en.jsonnet'):
        lits = jsonnet_lite.string_literals(inventory.mpath(fn))
        field = fn.split('.')[0]
        val = jsonnet_lite.get_field(inventory.mpath(fn), field)
        flat = [x for item in val for x in (item if isinstance(item, list) else [item])]
        # (the scan also sees quoted field names and the like: every value the loader returns must be among the
        # literals of the file, in the file's order)
        it = iter(lits)
        if not all(any(x == y for y in it) for x in flat):
            raise runner.HarnessError(f'mini-jsonnet loader disagrees with the literal scan on {fn}')
    # 2. every shipped category string: parses, round-trips (up to blanks / one outer bracket pair), hashable
    occ = inventory.all_category_strings(True)
    stats['string_occurrences'] = len(occ)
    parsed = {}
    for table, s in occ:
        if s in parsed:
            continue
        try:
            c = Category.parse(s)
            hash(c)
            t = str(c)
            if not (Category.parse(t) == c) or (t != s.replace(' ', '') and '(' + t + ')' != s.replace(' ', '')):
                bad('shipped-not-wellformed', f'{table}: {s!r} prints back as {t!r}')
            if {c: 1}.get(Category.parse(s)) != 1:
                bad('shipped-not-hashable', f'{table}: {s!r} cannot be found as a dict key')
            if canon(read(s)) != t:
                bad('shipped-not-wellformed', f'{table}: {s!r} is read as {t!r}, the text grammar says {canon(read(s))!r}')
            parsed[s] = c
        except Exception as ex:
            bad('shipped-unreadable', f'{table}: {s!r}: {type(ex).__name__}: {ex}')
    stats['distinct_strings'] = len(parsed)
    # 3. every dictionary category belongs to the tag inventory
    targets = {Category.parse(s) for s in inventory.targets('en')}
    cd = inventory.cat_dict_en()
    stats['cat_dict_words'] = len(cd)
    missing = {}
    n_occ = 0
    for w, cs in cd.items():
        for s in cs:
            n_occ += 1
            if s in parsed and parsed[s] not in targets:
                missing.setdefault(s, w)
    stats['cat_dict_category_occurrences'] = n_occ
    for s, w in list(missing.items())[:5]:
        bad('dict-category-not-in-inventory', f'cat_dict.en lists {s!r} for {w!r}, which is not in targets.en')
    # 4. read_params on the three shipped configurations (through the functional Params stub)
    from depccg.allennlp.utils import read_params
    from depccg.lang import set_global_language_to
    for lang, cfgname, tname in (('en', 'config_en.jsonnet', 'en'), ('ja', 'config_ja.jsonnet', 'ja'),
                                 ('en', 'config_rebank.jsonnet', 'en_rebank')):
        set_global_language_to(lang)
        try:
            has_dict = cfgname == 'config_en.jsonnet'
            res = read_params(inventory.mpath(cfgname), disable_category_dictionary=not has_dict)
        except Exception as ex:
            import traceback
            fr = traceback.extract_tb(ex.__traceback__)
            if fr and '/vlib/' in fr[-1].filename:
                # raised by a stand-in of the harness (Params, the mini-jsonnet loader), not by read_params
                raise runner.HarnessError(f'read_params({cfgname}): {type(ex).__name__}: {ex} '
                                          f'(at {fr[-1].filename}:{fr[-1].lineno})') from ex
            bad(f'read_params-raises/{cfgname}', f'{type(ex).__name__}: {ex}')
            continue
        finally:
            set_global_language_to('en')
        binary, unary, cdict, roots = res
        want_roots = [Category.parse(s) for s in inventory.targets(tname)]
        if roots != want_roots:
            bad(f'read_params/{cfgname}', 'root/tag categories differ from the targets file')
        # the loaded tables are observed through the functions read_params returns (how they are bound to the
        # functions is not looked at): every shipped unary rule fires, every 7th shipped seen pair is not filtered out
        for a, b in inventory.unary_rules('en_rebank' if tname == 'en_rebank' else lang):
            try:
                got_u = [r.cat for r in unary(Category.parse(a))]
            except Exception as ex:
                bad(f'read_params/{cfgname}', f'unary function raised {type(ex).__name__} on {a}')
                break
            if Category.parse(b) not in got_u:
                bad(f'read_params/{cfgname}', f'unary rule {a} -> {b} not found in the loaded table')
        pairs = inventory.seen_rules(tname)
        stats[f'seen_rules.{tname}'] = len(pairs)
        from depccg.grammar import en as _en, ja as _ja
        mod_ = _en if lang == 'en' else _ja
        for a, b in pairs[::7]:
            ca, cb = Category.parse(a), Category.parse(b)
            free = mod_.apply_binary_rules(ca, cb)
            if free and not binary(ca, cb):
                bad(f'read_params/{cfgname}', f'seen rule ({a}, {b}) not found in the loaded set')
                break
        if has_dict:
            if set(cdict) != set(cd):
                bad(f'read_params/{cfgname}', 'category dictionary words differ from the file')
            idx = {c: i for i, c in enumerate(want_roots)}
            nbad = sum(1 for w, cs in cdict.items() for c in cs if c not in idx)
            if nbad:
                bad('dict-category-not-in-inventory', f'{nbad} dictionary categories cannot be indexed in the tag list '
                    'returned by read_params')
    return fails


def _shard(ctx, shard, nshards):
    import depccg.parsing  # noqa: F401  (needs depccg._parsing: built by native.setup)
    if shard == 0:
        stats = {}
        fails = sweep_fails(stats=stats)
        ctx.notes['shipped_sweep'] = stats
        ctx.case(['sweep'], True, cls='shipped-sweep', sample={'sweep': stats})
        ctx.count(stats.get('string_occurrences', 0), cls='shipped-string-occurrences')
        ctx.report_direct(fails, {'kind': 'sweep'})

    def factory():
        @seed(runner.hseed(ctx, 17))
        @runner.hsettings(ctx.scale(800, 25000))
        @given(tapes(500))
        def test(data):
            case = build_case(data)
            info = {}
            fails = check_case(case, info)
            ctx.case(case, bool(info.get('nontrivial')), cls=('single-form' if info.get('single') else 'batch')
                     + ('/partial-mask' if info.get('nontrivial') else ''),
                     sample={'docs': case['docs'], 'dict': case['dict'], 'cats': case['cats']})
            ctx.report(fails, case)
        return test
    ctx.hypothesis(factory)


def run(ctx):
    from vlib import native
    native.setup()
    n = ctx.scale(8, 16)
    ctx.shards(_shard, n, n)
    ctx.exhaustive = 'every category string occurrence of the shipped cat_dict / targets / seen_rules / unary_rules / config_rebank tables'
    return RULE, 'exploration', [
        'read_params is executed through a functional stand-in for allennlp Params backed by a mini-jsonnet loader '
        '(cross-checked against a literal scan of the files)',
        'depccg.parsing imports depccg._parsing, which is the pyxlite translation']
