"""C07 — every output format encodes the same derivation."""
from hypothesis import given, seed

from vlib import decoders as D, gen_tok, gen_tree, runner
from vlib.model_cat import canon
from vlib.tape import Tape, tapes

PROPERTY = 'C07'
RULE = ('batches (1-3 sentences x 1-3 trees) of derivations licensed by the live en/ja grammars and of arbitrary '
        'well-formed trees, tokens over printable non-blank text with brackets, quotes, slashes, <, >, & and non-ASCII '
        'boosted and the annotators\' attribute sets; each batch is rendered in every format of its language and decoded '
        'by an independent reader of that format; oracle = decoded records equal the derivation projected to what the '
        'format carries (words in order, shape, categories in the format\'s spelling, labels / head flags / token '
        'attributes / offsets where carried, conll heads recomputed from the head flags, sentence / n-best numbering); '
        'non-trivial = a tree with >=2 leaves and a token with a special character, or an n-best list; distinct by case digest')

FORMATS = {
    'en': ['auto', 'auto_extended', 'xml', 'jigg_xml', 'conll', 'json', 'json_full', 'ptb', 'deriv', 'html', 'prolog'],
    'ja': ['auto', 'jigg_xml', 'conll', 'json', 'json_full', 'ptb', 'deriv', 'html', 'prolog', 'ja'],
}
# alphabets a format can carry (per the statements of C08 / C20 for the same formats)
NO_BACKSLASH = {'auto', 'auto_extended', 'conll', 'ptb', 'ja'}
PROLOG_EN_FUNCTOR = {'fa': 'fa', 'ba': 'ba', 'fx': 'fc', 'fc': 'fc', 'bx': 'bxc', 'gfc': 'gfc', 'gbx': 'gbx', 'rp': 'rp',
                     'conj': 'conj'}
PROLOG_JA_FUNCTOR = {'SSEQ': 'sseq', '>': 'fa', '<': 'ba', '>B': 'fc', '<B1': 'bc1', '<B2': 'bc2', '<B3': 'bc3',
                     '<B4': 'bc4', '>Bx1': 'fx1', '>Bx2': 'fx2', '>Bx3': 'fx3', 'ADNext': 'adnext', 'ADNint': 'adnint',
                     'ADV0': 'adv0', 'ADV1': 'adv1', 'ADV2': 'adv2', 'OTHER': 'other'}


def carriable(fmt, system, words, tokens):
    """can this format carry these tokens at all (alphabet the statements give for the format)"""
    vals = [v for tk in tokens for v in tk.values()]
    if fmt in NO_BACKSLASH and any('\\' in v for v in vals):
        return False
    if fmt == 'ptb' and any('(' in w or ')' in w for w in words):
        return False            # known finding C20/ptb/round-bracket-at-word-edge: no escaping in the format
    if fmt == 'ja' and any(c in v for v in vals for c in '/{}'):
        return False
    return True


def prolog_en_ref(d, tokens):
    it = iter(tokens)

    def rec(x):
        if x[0] == 'L':
            tk = next(it)
            return ('L', D.prolog_en_cat(x[1]), tk['word'], (('lemma', tk.get('lemma', 'XX')), ('pos', tk.get('pos', 'XX')),
                                                             ('chunk', tk.get('chunk', 'XX')), ('entity', tk.get('entity', 'XX'))))
        if x[0] == 'U':
            return ('T', D.prolog_en_cat(x[1]), 'lx', None, (rec(x[2]),), ('childcat', D.prolog_en_cat(x[2][1])))
        lab = x[4]
        l, r = rec(x[2]), rec(x[3])
        if lab == 'lp':
            return ('T', D.prolog_en_cat(x[1]), 'lp', None, (l, r), ('rcat', D.prolog_en_cat(x[3][1])))
        if lab == 'conj':
            return ('T', D.prolog_en_cat(x[1]), 'conj', None, (l, r), ('leftcat', D.prolog_en_cat(x[1][1])))
        return ('T', D.prolog_en_cat(x[1]), PROLOG_EN_FUNCTOR[lab], None, (l, r))
    return rec(d)


def prolog_ja_ref(d, tokens):
    it = iter(tokens)

    def rec(x):
        if x[0] == 'L':
            tk = next(it)
            tags = [tk.get(k, '*') for k in ('pos', 'pos1', 'pos2', 'pos3')]
            pos = '*' if all(t == '*' for t in tags) else '/'.join(tags)
            return ('L', D.prolog_ja_cat(x[1]), tk.get('surf', tk['word']),
                    (('base', tk.get('base', '*')), ('pos', pos), ('form', tk.get('inflectionForm', '*')),
                     ('type', tk.get('inflectionType', '*'))))
        if x[0] == 'U':
            return ('T', D.prolog_ja_cat(x[1]), PROLOG_JA_FUNCTOR[x[4]], None, (rec(x[2]),))
        return ('T', D.prolog_ja_cat(x[1]), PROLOG_JA_FUNCTOR[x[5]], None, (rec(x[2]), rec(x[3])))
    return rec(d)


def expected(fmt, system, d, tokens, first_leaf_cats=None):
    if fmt == 'auto':
        return D.ref_tree(d, tokens, word=lambda tk: D.auto_word(tk['word']), attrs=('pos',), head=True,
                          leaf_attr_default='POS')
    if fmt == 'auto_extended':
        return D.ref_tree(d, tokens, word=lambda tk: D.auto_word(tk['word']), attrs=('lemma', 'pos', 'entity', 'chunk'),
                          label='string', head=True, leaf_attr_default='XX')
    if fmt in ('json', 'json_full'):
        it = iter(tokens)

        def rec(x):
            if x[0] == 'L':
                tk = next(it)
                return ('L', canon(x[1]), tk['word'], tuple(sorted((k, v) for k, v in tk.items() if k != 'word')))
            if x[0] == 'U':
                return ('T', canon(x[1]), x[3], None, (rec(x[2]),))
            return ('T', canon(x[1]), x[4], None, (rec(x[2]), rec(x[3])))
        return rec(d)
    if fmt == 'xml':
        it = iter(tokens)

        def rec(x):
            if x[0] == 'L':
                tk = next(it)
                return ('L', canon(x[1]), tk['word'], tuple(sorted((k, v) for k, v in tk.items() if k != 'word')))
            if x[0] == 'U':
                return ('T', canon(x[1]), x[3], None, (rec(x[2]),))
            return ('T', canon(x[1]), x[4], None, (rec(x[2]), rec(x[3])))
        return rec(d)
    if fmt == 'jigg_xml':
        it = iter(tokens)
        use_symbol = system == 'ja'
        # the <token> elements belong to the sentence: their cat attribute is the leaf category of the first tree
        tcats = iter(first_leaf_cats if first_leaf_cats is not None else gen_tree.leaves_of(d))

        def rec(x):
            if x[0] == 'L':
                tk = dict(next(it))
                tcat = next(tcats)
                surf = tk.pop('word')
                if 'lemma' in tk:
                    tk['base'] = tk.pop('lemma')
                tk.pop('surf', None) if False else None
                attrs = dict(tk)
                attrs.pop('surf', None)
                return ('L', D.jigg_cat(x[1]), surf, tuple(sorted(attrs.items())) + (('token_cat', canon(tcat)),))

            if x[0] == 'U':
                return ('T', D.jigg_cat(x[1]), x[4] if use_symbol else x[3], None, (rec(x[2]),))
            return ('T', D.jigg_cat(x[1]), x[5] if use_symbol else x[4], None, (rec(x[2]), rec(x[3])))
        return rec(d)
    if fmt == 'ptb':
        return D.ref_tree(d, tokens)
    if fmt == 'deriv':
        return D.ref_tree(d, tokens, label='symbol')
    if fmt == 'html':
        return D.ref_tree(d, tokens, label='string')
    if fmt == 'ja':
        it = iter(tokens)

        def rec(x):
            if x[0] == 'L':
                tk = next(it)
                pos, infl = D.ja_leaf_fields(tk)
                return ('L', canon(x[1]), D.JA_NORM.get(tk['word'], tk['word']), (('pos', pos), ('inflection', infl)))
            if x[0] == 'U':
                return ('T', canon(x[1]), x[4], None, (rec(x[2]),))
            return ('T', canon(x[1]), x[5], None, (rec(x[2]), rec(x[3])))
        return rec(d)
    if fmt == 'prolog':
        return prolog_en_ref(d, tokens) if system == 'en' else prolog_ja_ref(d, tokens)
    raise runner.HarnessError('no reference for format ' + fmt)


def decode(fmt, system, text):
    if fmt == 'auto':
        return D.decode_auto(text)
    if fmt == 'auto_extended':
        return D.decode_auto(text, extended=True)
    if fmt == 'conll':
        return D.decode_conll(text)
    if fmt == 'json':
        return D.decode_json(text)
    if fmt == 'json_full':
        return D.decode_json(text, full=True)
    if fmt == 'xml':
        return D.decode_xml(text)
    if fmt == 'jigg_xml':
        return D.decode_jigg(text)
    if fmt == 'ptb':
        return D.decode_ptb(text)
    if fmt == 'deriv':
        return D.decode_deriv(text)
    if fmt == 'html':
        return D.decode_html(text)
    if fmt == 'ja':
        return D.decode_ja(text)
    if fmt == 'prolog':
        return D.decode_prolog_en(text) if system == 'en' else D.decode_prolog_ja(text)
    raise runner.HarnessError('no decoder for format ' + fmt)


def _first_diff(a, b, path='tree'):
    if isinstance(a, tuple) and isinstance(b, tuple) and len(a) == len(b):
        for i, (x, y) in enumerate(zip(a, b)):
            d = _first_diff(x, y, f'{path}.{i}')
            if d:
                return d
        return None
    return None if a == b else f'{path}: decoded {a!r}, derivation has {b!r}'


def _diff_class(dec, ref):
    """coarse class of the first difference (keeps finding keys stable)"""
    def walk(a, b):
        if a[0] != b[0]:
            return 'shape'
        if a[1] != b[1]:
            return 'category'
        if a[0] == 'L':
            if a[2] != b[2]:
                return 'word'
            if a[3] != b[3]:
                return 'token-attributes'
            return None
        if a[2] != b[2]:
            return 'label'
        if a[3] != b[3]:
            return 'head-flag'
        if len(a[4]) != len(b[4]):
            return 'shape'
        for x, y in zip(a[4], b[4]):
            r = walk(x, y)
            if r:
                return r
        if a[5:] != b[5:]:
            return 'extra-category-argument'
        return None
    try:
        return walk(dec, ref) or 'other'
    except Exception:
        return 'shape'


@runner.guarded(PROPERTY)
def check_case(case, info=None):
    from depccg.lang import set_global_language_to
    from depccg.printer import to_string
    from depccg.tree import ScoredTree
    fails = []

    def bad(key, msg):
        fails.append((f'{PROPERTY}/{key}', msg))
    system = case['system']
    set_global_language_to(system)
    skipped = []
    try:
        derivs = [[gen_tree.deriv_from_json(tc['deriv']) for tc in sent] for sent in case['batch']]
        toks = [[tc['tokens'] for tc in sent] for sent in case['batch']]
        flat = [(i + 1, j + 1, derivs[i][j], toks[i][j]) for i in range(len(derivs)) for j in range(len(derivs[i]))]
        all_tokens = [tk for s in toks for tl in s for tk in tl]
        words = [tk['word'] for tk in all_tokens]
        for fmt in case.get('formats') or FORMATS[system]:
            if not carriable(fmt, system, words, all_tokens):
                skipped.append(fmt)
                continue
            batch = [[ScoredTree(tr, -0.5 * (k + 1)) for k, tr in enumerate(gen_tree.sentence_trees(sent))]
                     for sent in case['batch']]
            try:
                if fmt == 'json_full':
                    import json as _json
                    from depccg.printer.my_json import json_of
                    text = _json.dumps({str(i): [dict(json_of(st.tree, full=True), log_prob=st.score) for st in sent]
                                        for i, sent in enumerate(batch, 1)})
                else:
                    text = to_string(batch, format=fmt)
            except Exception as ex:
                bad(f'{fmt}/{system}/encoder-raises/{type(ex).__name__}', f'{fmt}: {type(ex).__name__}: {ex}')
                continue
            try:
                recs = decode(fmt, system, text)
            except Exception as ex:   # whatever goes wrong in a reader of the format means the output is malformed
                bad(f'{fmt}/{system}/undecodable', f'{fmt}: output is not well-formed for its format: {type(ex).__name__}: {ex}; '
                    f'words {words[:6]}')
                continue
            if len(recs) != len(flat):
                bad(f'{fmt}/{system}/record-count', f'{fmt}: {len(recs)} records for {len(flat)} trees')
                continue
            for rec, (si, ti, d, tk) in zip(recs, flat):
                ref = expected(fmt, system, d, tk, gen_tree.leaves_of(derivs[si - 1][0])) if fmt != 'conll' else None
                if rec[0] != si or (rec[1] is not None and rec[1] != ti):
                    bad(f'{fmt}/{system}/numbering', f'{fmt}: tree {ti} of sentence {si} appears as record '
                        f'(sentence {rec[0]}, tree {rec[1]})')
                dec = rec[2]
                if fmt == 'conll':
                    dec, rows = rec[2]
                    ref_tree = D.ref_tree(d, tk, word=lambda t_: D.auto_word(t_['word']), attrs=('pos',), head=True,
                                          leaf_attr_default='_')
                    if dec != ref_tree:
                        bad(f'{fmt}/{system}/differs/fragments-{_diff_class(dec, ref_tree)}',
                            f'conll fragments: {_first_diff(dec, ref_tree)}')
                    want_heads = D.heads_of(d)
                    leaves = gen_tree.leaves_of(d)
                    for k, row in enumerate(rows):
                        t_ = tk[k]
                        if row['head'] != want_heads[k]:
                            bad(f'{fmt}/{system}/heads', f'conll head of word {k + 1} is {row["head"]}, the head flags imply '
                                f'{want_heads[k]} (all: {want_heads})')
                            break
                        # (FORM: the word, as it is or in the escaped spelling of the AUTO fragment)
                        if row['word'] not in (D.auto_word(t_['word']), t_['word']) or \
                                (row['lemma'], row['pos'], row['cat']) != \
                                (t_.get('lemma', '_'), t_.get('pos', '_'), canon(leaves[k])):
                            bad(f'{fmt}/{system}/differs/columns', f'conll row {k + 1}: {row}')
                            break
                    continue
                if fmt == 'html':
                    want_words = ' '.join(t_['word'] for t_ in tk)
                    if rec[3] != ' '.join(t_['word'] for t_ in toks[si - 1][0]):
                        bad(f'{fmt}/{system}/differs/sentence-words', f'html sentence line {rec[3]!r} vs words {want_words!r}')
                if fmt == 'jigg_xml' and 'token_cat' not in repr(dec):
                    ref = _without_token_cat(ref)       # (the copy of the leaf category on <token> is optional)
                if dec != ref:
                    bad(f'{fmt}/{system}/differs/{_diff_class(dec, ref)}', f'{fmt}: {_first_diff(dec, ref)}')
    finally:
        set_global_language_to('en')
    if info is not None:
        info['skipped'] = skipped
    return fails


def _without_token_cat(t):
    if t[0] == 'L':
        return t[:3] + (tuple(kv for kv in t[3] if kv[0] != 'token_cat'),) + t[4:]
    return t[:4] + (tuple(_without_token_cat(c) for c in t[4]),) + t[5:]


def replay(case):
    return check_case(case)


def build_case(data):
    t = Tape(data)
    system = t.pick(['en', 'en', 'ja'])
    alphabet = t.weighted([(3, 'strict'), (2, 'wide')])
    excl = '\\' if alphabet == 'strict' else ''
    if alphabet == 'strict' and system == 'ja':
        excl = '\\/{}'
    nsent = t.weighted([(4, 1), (2, 2), (1, 3)])
    batch = []
    for _ in range(nsent):
        nb = t.weighted([(4, 1), (2, 2), (1, 3)])
        first = gen_tree.t_tree_case(t, system, max_leaves=5, tok_exclude=excl, ja_tokens=(system == 'ja'),
                                      variants=True)
        _prolog_safe(first)
        sent = [first]
        n = len(first['tokens'])
        for _ in range(nb - 1):
            other = None
            for _try in range(5):
                cand = gen_tree.t_tree_case(t, system, licensed=False, max_leaves=n, tok_exclude=excl,
                                            ja_tokens=(system == 'ja'))
                if len(cand['tokens']) == n:
                    other = cand
                    break
            if other is None:
                other = dict(first)
            other = dict(other, tokens=first['tokens'])
            _prolog_safe(other)
            sent.append(other)
        batch.append(sent)
    return {'system': system, 'batch': batch, 'alphabet': alphabet}


def _prolog_safe(tc):
    """arbitrary trees: the Prolog 'conj' form spells the left part of the node category, so the label 'conj'
    is only put on functor categories (as the grammar does)"""
    def fix(j):
        if j[0] == 'B':
            if j[4] == 'conj' and j[1][0] != 'f':
                j[4], j[5] = 'fa', '>'
            fix(j[2])
            fix(j[3])
        elif j[0] == 'U':
            fix(j[2])
    fix(tc['deriv'])


def _shard(ctx, shard, nshards):
    for lang in ('en', 'ja'):
        gen_tree.rule_index(lang)

    def factory():
        @seed(runner.hseed(ctx, 7))
        @runner.hsettings(ctx.scale(800, 15000))
        @given(tapes(2000))
        def test(data):
            case = build_case(data)
            info = {}
            fails = check_case(case, info)
            words = [tk['word'] for s in case['batch'] for tk in s[0]['tokens']]
            nb = max(len(s) for s in case['batch'])
            special = any(gen_tok.classify_word(w) != 'plain' for w in words)
            leaves = max(len(s[0]['tokens']) for s in case['batch'])
            nontriv = (leaves >= 2 and special) or nb > 1
            classes = sorted({gen_tok.classify_word(w) for w in words})
            for fmt in FORMATS[case['system']]:
                if fmt not in info.get('skipped', []):
                    for c in classes:
                        key = f"{case['system']}/{fmt}/{c}"
                        hist = ctx.notes.setdefault('format_x_tokenclass', {})
                        hist[key] = hist.get(key, 0) + 1
            ctx.case(case, nontriv, cls=f"{case['system']}/{case['alphabet']}/nbest={nb}/sentences={len(case['batch'])}",
                     sample={'system': case['system'], 'words': words[:8], 'nbest': nb,
                             'formats_skipped_for_alphabet': info.get('skipped')})
            ctx.report(fails, case)
        return test
    ctx.hypothesis(factory)


def run(ctx):
    n = ctx.scale(8, 16)
    ctx.shards(_shard, n, n)
    return RULE, 'exploration', [
        'per-format token alphabets are those the statements give for the same format (auto, conll, ptb: no backslash; '
        'ja: also no / { }); PTB additionally cannot carry round brackets inside words (known finding of C20)',
        'the Prolog reference uses the LangPro functor names the printer documents (fa, ba, fc, bxc, gfc, gbx, rp, lx, lp, conj)',
        'the ccg2lambda formats need NLTK and are not decoded']
