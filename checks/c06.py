"""C06 — pattern matching of categories succeeds exactly when it should."""
from hypothesis import given, seed

from vlib import gen_cat, gen_pair, inventory, oracle_unify as ou, runner
from vlib.model_cat import ORIGINS, canon, feats, from_json, jsonable, model_of, read, to_cat, to_cat_via
from vlib.tape import Tape, tapes

PROPERTY = 'C06'
RULE = ('pattern pairs = every pair the live grammars construct (recorded from Unification.__init__ while '
        'en/ja rules run) plus bounded random pattern pairs; inputs = exact instantiations with 0-2 '
        'perturbations (feature to clashing/X/nb/none, slash swap, | for a slash, sub-category replaced) and '
        'random categories, both feature systems; oracle = statement-level matcher over category models; '
        'non-trivial = the case passes the shape stage, or fails after exactly one perturbation; distinct by case digest')

STATIC_PATTERNS = [
    ("a/b", "b"), ("b", "a\\b"), ("a/b", "b/c"), ("b/c", "a\\b"), ("a/b", "(b/c)|d"), ("(b/c)|d", "a/b"),
    ("b\\c", "a\\b"), ("(b\\c)|d", "a\\b"), ("((b\\c)|d)|e", "a\\b"), ("(((b\\c)|d)|e)|f", "a\\b"),
    ("a/b", "b\\c"), ("a/b", "(b\\c)|d"), ("a/b", "((b\\c)|d)|e"),
]

_live = None


def live_patterns():
    """pattern pairs the working-tree grammars actually build"""
    global _live
    if _live is not None:
        return _live
    import depccg.unification as U
    from depccg.grammar import en, ja
    from depccg.cat import Category
    seen = {}
    orig = U.Unification.__init__

    def rec(self, *a, **k):
        # (positional or keyword construction: only the two pattern texts are recorded)
        vals = list(a) + list(k.values())
        if len(vals) >= 2:
            seen[(str(vals[0]), str(vals[1]))] = None
        orig(self, *a, **k)
    U.Unification.__init__ = rec
    try:
        xs = [Category.parse(s) for s in ('S[dcl]/NP', 'NP', '(S\\NP)/NP', 'S\\NP', '((S\\NP)/NP)/NP', ',')]
        for x in xs:
            for y in xs:
                en.apply_binary_rules(x, y)
        js = [Category.parse(s) for s in inventory.targets('ja')[:12]]
        for x in js:
            for y in js:
                ja.apply_binary_rules(x, y)
    finally:
        U.Unification.__init__ = orig
    _live = list(seen)
    return _live


def all_patterns():
    out = list(dict.fromkeys(live_patterns() + STATIC_PATTERNS))
    return out


@runner.guarded(PROPERTY)
def check_case(case):
    from depccg.unification import Unification
    fails = []

    def bad(key, msg):
        fails.append((f'{PROPERTY}/{key}', msg))
    pxs, pys = case['px'], case['py']
    mpx, mpy = read(pxs), read(pys)
    mx, my = from_json(case['x']), from_json(case['y'])
    x, y = to_cat_via(mx, case.get('origin_x', 'built')), to_cat_via(my, case.get('origin_y', 'built'))
    v, occ, stage = ou.verdict(mpx, mpy, mx, my)
    tag = f'patterns ({pxs} , {pys}) on ({canon(mx)} , {canon(my)})'
    u = Unification(pxs, pys)
    try:
        got = u(x, y)
    except Exception as ex:
        bad('raises', f'{tag}: {type(ex).__name__}: {ex}')
        return fails
    if model_of(x) != mx or model_of(y) != my:
        bad('mutates', f'{tag}: arguments changed')
    names = list(dict.fromkeys(ou.pattern_vars(mpx) + ou.pattern_vars(mpy)))
    if v is not None and bool(got) is not v:
        bad(f'verdict/{"accepts" if got else "rejects"}-at-{stage}',
            f'{tag}: matcher says {got}, statement says {v} (decided at stage {stage})')
    if got:
        pool = feats(mx) | feats(my)
        for n in names:
            try:
                b = u[n]
            except Exception as ex:
                bad('binding-unreadable', f'{tag}: uni[{n!r}] raised {type(ex).__name__} after success')
                continue
            if n in occ and not ou.binding_valid(model_of(b), occ[n], pool):
                bad('binding-invalid', f'{tag}: uni[{n!r}] = {b}; matched occurrences '
                    f'{[canon(t) for _, t in occ[n]]}')
        try:
            u['zz_unknown']
            bad('unknown-name', f'{tag}: a binding can be read under a name neither pattern uses')
        except Exception:
            pass        # (which exception is not stated)
    else:
        for n in names:
            try:
                b = u[n]
                bad('binding-after-failure', f'{tag}: uni[{n!r}] = {b} readable after a failed match')
            except Exception:
                pass
    try:
        u(x, y)
        bad('answers-twice', f'{tag}: second call answered instead of raising')
    except RuntimeError:
        pass
    except Exception as ex:
        bad('answers-twice', f'{tag}: second call raised {type(ex).__name__}, expected RuntimeError')
    return fails


def classify(case):
    mpx, mpy = read(case['px']), read(case['py'])
    v, occ, stage = ou.verdict(mpx, mpy, from_json(case['x']), from_json(case['y']))
    return v, stage


def replay(case):
    return check_case(case)


def build_case(data, pats):
    t = Tape(data)
    system = t.pick(['en', 'en', 'ja'])
    mode = t.weighted([(5, 'grammar'), (2, 'randpat'), (1, 'randinput')])
    if mode == 'randpat':
        mpx, mpy = gen_pair.t_pattern_pair(t)
        pxs, pys = canon(mpx), canon(mpy)
    else:
        pxs, pys = t.pick(pats)
        mpx, mpy = read(pxs), read(pys)
    names = list(dict.fromkeys(ou.pattern_vars(mpx) + ou.pattern_vars(mpy)))
    if mode == 'randinput':
        mx = gen_cat.t_cat(t, system, depth=3, bar=True)
        my = gen_cat.t_cat(t, system, depth=3, bar=True)
        kinds = ['random']
    else:
        n_pert = t.weighted([(3, 0), (3, 1), (2, 2)])
        mx, my, env, kinds = gen_pair.t_instance(t, mpx, mpy, system, n_pert, names)
        # spread feature variables / nb over the instance
        if t.chance(90):
            mx = gen_cat.t_refeature(t, mx, system, 60)
        if t.chance(90):
            my = gen_cat.t_refeature(t, my, system, 60)
            kinds = kinds + ['refeature']
    return {'px': pxs, 'py': pys, 'x': jsonable(mx), 'y': jsonable(my), 'mode': mode,
            'system': system, 'perturbations': kinds,
            'origin_x': ORIGINS[t.tail(0) % 4], 'origin_y': ORIGINS[t.tail(1) % 4]}


def fuzz_one(data):
    case = build_case(bytes(data).ljust(200, b'\0')[:200], all_patterns())
    return check_case(case), case


def _shard(ctx, shard, nshards):
    pats = all_patterns()
    if shard == 1 and not ctx.quick:
        from vlib import fuzz
        fuzz.campaign(ctx, 'c06', 120000)
    if shard == 0:
        ctx.notes['live_pattern_pairs'] = [list(p) for p in live_patterns()]

    def factory():
        @seed(runner.hseed(ctx, 6))
        @runner.hsettings(ctx.scale(4000, 120000))
        @given(tapes(200))
        def test(data):
            case = build_case(data, pats)
            v, stage = classify(case)
            if v is None:
                ctx.unspec('three-part features with variables on both sides')
            npert = len([k for k in case['perturbations'] if k not in ('random', 'refeature')])
            nontriv = stage != 'shape' or (case['mode'] != 'randinput' and npert == 1)
            cls = f"{case['mode']}/{case['system']}/{stage}/{ {True: 'match', False: 'no-match', None: 'unspecified'}[v]}"
            ctx.case(case, nontriv, cls=cls,
                     sample={'patterns': [case['px'], case['py']], 'x': canon(from_json(case['x'])),
                             'y': canon(from_json(case['y'])), 'perturbations': case['perturbations'],
                             'statement_verdict': v})
            ctx.report(check_case(case), case)
        return test
    ctx.hypothesis(factory)


def run(ctx):
    n = ctx.scale(8, 16)
    ctx.shards(_shard, n, n)
    return RULE, 'exploration', [
        'three-part features with variables on both sides in different slots are not fixed by the statement: '
        'counted as unspecified, not judged',
        'pattern variables occur at most once per side (as in every grammar pattern)']
