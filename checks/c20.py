"""C20 — PTB and Japanese-bank text written by depccg reads back to the same tree."""
import os

from hypothesis import given, seed

from vlib import gen_tok, gen_tree, model_tree as mt, runner
from vlib.model_cat import canon, from_json
from vlib.tape import Tape, tapes

PROPERTY = 'C20'
RULE = ('trees over the English lexicon printed with to_string(ptb) and read with read_ptb; trees over the Japanese '
        'lexicon printed with to_string(ja) and read with read_ccgbank, also after the harness decorates the categories '
        'of the printed line with the bank\'s {I1} / _none annotations; tokens over printable non-blank text without '
        'backslashes (ja: also without / { }), whole-token and embedded brackets boosted; every proper prefix class of a '
        'printed PTB line (inside a word, after a category, before the last k brackets) must be rejected; non-trivial = '
        'a tree with a binary and a unary node and a bracket token, or a truncation; distinct by case digest')


def ptb_word_unrepresentable(w):
    """PTB s-expressions cannot carry a word that starts with '(' or ends with ')' (known finding)"""
    return w.startswith('(') or w.endswith(')')


JA_NORM = {'-LRB-': '(', '-RRB-': ')', '-LSB-': '[', '-RSB-': ']'}   # (curly brackets delimit the format's nodes: their escapes stay)


def ja_norm(w):
    """the Japanese bank printer writes PTB-escaped whole-word brackets in their plain spelling"""
    return JA_NORM.get(w, w)


def ja_line(d, tokens, decorate=None):
    """harness-side printer of the Japanese bank format (used to add annotations)"""
    it = iter(tokens)

    def catstr(m, leaf):
        s = canon(m)
        if decorate is None:
            return s
        return decorate(s, leaf)

    def rec(x):
        if x[0] == 'L':
            tk = next(it)
            poss = [tk.get(k, '*') for k in ('pos', 'pos1', 'pos2', 'pos3')]
            poss = [p for p in poss if p != '*']
            pos = '-'.join(poss) if poss else '_'
            infl = [tk.get(k, '*') for k in ('inflectionForm', 'inflectionType')]
            infl = [i for i in infl if i != '*']
            inf = '-'.join(infl) if infl else '_'
            w = ja_norm(tk['word'])
            return '{' + f'{catstr(x[1], True)} {w}/{w}/{pos}/{inf}' + '}'
        if x[0] == 'U':
            return '{' + f'{x[4]} {catstr(x[1], False)} {rec(x[2])}' + '}'
        return '{' + f'{x[5]} {catstr(x[1], False)} {rec(x[2])} {rec(x[3])}' + '}'
    return rec(d)


@runner.guarded(PROPERTY)
def check_case(case, info=None):
    from depccg.lang import set_global_language_to
    from depccg.printer import to_string
    from depccg.tree import ScoredTree
    fails = []

    def bad(key, msg):
        fails.append((f'{PROPERTY}/{key}', msg))
    tc = case['tree']
    system = tc['system']
    set_global_language_to(system)
    try:
        tree = gen_tree.tree_of_case(tc)
        d = gen_tree.deriv_from_json(tc['deriv'])
        words = [tk['word'] for tk in tc['tokens']]
        if case['format'] == 'ptb':
            from depccg.tools.reader import read_ptb
            text = to_string([[ScoredTree(tree, -1.0)]], format='ptb')
            lines = [l for l in text.split('\n') if l]
            line = lines[-1]
            if case.get('truncate') is not None:
                cut = line[:case['truncate']]
                path = mt.scratch_file('.ptb')
                with open(path, 'w', encoding='utf-8') as f:
                    f.write(lines[0] + '\n' + cut + '\n')
                try:
                    rs = list(read_ptb(path))
                    if cut.strip() and rs:
                        bad('ptb/round-bracket-at-word-edge' if any('(' in w or ')' in w for w in words)
                            else 'ptb/incomplete-line-accepted', f'incomplete line {cut!r} (prefix of {line!r}) was read as a tree '
                            f'over {[t.get("word") for t in rs[0].tokens]}')
                except Exception:
                    pass
                finally:
                    os.unlink(path)
                return fails
            path = mt.scratch_file('.ptb')
            with open(path, 'w', encoding='utf-8') as f:
                f.write(text)
            weird = [w for w in words if ptb_word_unrepresentable(w)]
            try:
                try:
                    rs = list(read_ptb(path))
                except Exception as ex:
                    key = 'ptb/round-bracket-at-word-edge' if weird else \
                        ('ptb/binary-node' if gen_tree.n_binary(d) else 'ptb/reader-raises')
                    bad(f'{key}/{type(ex).__name__}' if not weird else key,
                        f'{type(ex).__name__}: {ex} on {line!r}')
                    return fails
            finally:
                os.unlink(path)
            if len(rs) != 1:
                bad('ptb/tree-count', f'one tree written, {len(rs)} read')
                return fails
            want = mt.shape(tree, leaf=lambda t: (t.token['word'],))
            got = mt.shape(rs[0].tree, leaf=lambda t: (t.token.get('word'),))
            if want != got:
                bad('ptb/round-bracket-at-word-edge' if weird else 'ptb/tree-differs',
                    f'line {line!r}: {mt.first_diff(want, got)}')
            elif len(rs[0].tokens) != len(words):
                bad('ptb/token-list', f'reader token list has {len(rs[0].tokens)} entries for {len(words)} words')
        else:
            from depccg.tools.ja.reader import read_ccgbank
            text = to_string([[ScoredTree(tree, -1.0)]], format='ja')
            lines = [l for l in text.split('\n') if l]
            line = lines[-1]
            mine = ja_line(d, tc['tokens'])
            variants = [('plain', line)]
            dk = case.get('decorate')
            # (the annotated variants are produced by the harness's own printer of the format; they are used only
            # while that printer reproduces ja_of, i.e. while the layout of the line is the one it knows)
            if dk and mine == line:
                def deco(s, leaf, dk=dk):
                    if dk == 'leaf_none':
                        return s + '_none' if leaf else s
                    if dk == 'index':
                        return s.replace(']', ']{I1}', 1) + ('_I1(I2,_,_,_)' if leaf else '')      # (the bank's form)
                    return (s.replace(']', ']{I2}') + '_none') if leaf else s.replace(']', ']{I1}', 1)
                variants.append((dk, ja_line(d, tc['tokens'], deco)))
            for name, ln in variants:
                path = mt.scratch_file('.ja')
                with open(path, 'w', encoding='utf-8') as f:
                    f.write(ln + '\n')
                try:
                    try:
                        rs = list(read_ccgbank(path))
                    except Exception as ex:
                        bad(f'ja/reader-raises/{name}/{type(ex).__name__}', f'{type(ex).__name__}: {ex} on {ln!r}')
                        continue
                finally:
                    os.unlink(path)
                if len(rs) != 1:
                    bad('ja/tree-count', f'one tree written, {len(rs)} read')
                    continue
                want = mt.shape(tree, leaf=lambda t: (ja_norm(t.token['word']),),
                                node=lambda t: (t.op_symbol,))
                literal = mt.shape(tree, leaf=lambda t: (t.token['word'],), node=lambda t: (t.op_symbol,))
                got = mt.shape(rs[0].tree, leaf=lambda t: (t.token.get('word'),),
                               node=lambda t: (t.op_symbol,))
                # "the same words": literally, or with PTB-escaped whole-word brackets in their plain spelling
                if want != got and literal != got:
                    diff = mt.first_diff(want, got)
                    bad(f'ja/tree-differs/{name}', f'line {ln!r}: {diff}')
    finally:
        set_global_language_to('en')
    return fails


def replay(case):
    return check_case(case)


def build_case(data):
    t = Tape(data)
    fmt = t.pick(['ptb', 'ptb', 'ja', 'ja', 'trunc'])
    if fmt == 'ja':
        tc = gen_tree.t_tree_case(t, 'ja', licensed=True if t.chance(200) else False, max_leaves=6,
                                  tok_exclude='\\/{}', ja_tokens=True)
        return {'format': 'ja', 'tree': tc, 'decorate': t.pick([None, 'leaf_none', 'index', 'both'])}
    tc = gen_tree.t_tree_case(t, 'en', max_leaves=6, tok_exclude='\\', ja_tokens=False)
    case = {'format': 'ptb', 'tree': tc}
    if fmt == 'trunc':
        case['truncate'] = t.below(4000)       # resolved modulo the line length below
        case['truncate_mode'] = t.pick(['any', 'tail', 'tail', 'after-space'])
    return case


def resolve_truncation(case):
    """turn the drawn number into a concrete proper-prefix length of the printed line"""
    from depccg.printer.ptb import ptb_of
    line = ptb_of(gen_tree.tree_of_case(case['tree']))
    n = len(line)
    k = case['truncate']
    mode = case.get('truncate_mode', 'any')
    if mode == 'tail':
        cut = n - 1 - (k % min(n - 1, 6))
    elif mode == 'after-space':
        spaces = [i + 1 for i, ch in enumerate(line) if ch == ' ' and i + 1 < n]
        cut = spaces[k % len(spaces)] if spaces else k % n
    else:
        cut = k % n
    case['truncate'] = max(0, min(cut, n - 1))
    case.pop('truncate_mode', None)
    return case, line


def _shard(ctx, shard, nshards):
    for lang in ('en', 'ja'):
        gen_tree.rule_index(lang)

    def factory():
        @seed(runner.hseed(ctx, 20))
        @runner.hsettings(ctx.scale(1500, 30000))
        @given(tapes(900))
        def test(data):
            case = build_case(data)
            d = gen_tree.deriv_from_json(case['tree']['deriv'])
            words = [tk['word'] for tk in case['tree']['tokens']]
            brack = any(gen_tok.classify_word(w) in ('whole-bracket', 'contains-bracket') for w in words)
            if case.get('truncate') is not None:
                case, line = resolve_truncation(case)
                ch = line[case['truncate'] - 1] if case['truncate'] else ''
                cls = 'ptb-truncated/' + ('after-bracket' if ch == ')' else 'after-space' if ch == ' ' else 'inside-token')
                nontriv = True
            else:
                nontriv = gen_tree.n_binary(d) >= 1 and gen_tree.has_unary(d) and brack
                cls = f"{case['format']}/{'licensed' if case['tree']['licensed'] else 'arbitrary'}" + \
                    ('/bracket-token' if brack else '') + ('/binary+unary' if gen_tree.n_binary(d) and gen_tree.has_unary(d) else '') + \
                    (f"/annotated-{case.get('decorate')}" if case.get('decorate') else '')
            ctx.case(case, nontriv, cls=cls, sample={'format': case['format'], 'words': words,
                                                     'truncate_at': case.get('truncate'), 'decorate': case.get('decorate')})
            ctx.report(check_case(case), case)
        return test
    ctx.hypothesis(factory)


def run(ctx):
    n = ctx.scale(8, 16)
    ctx.shards(_shard, n, n)
    return RULE, 'exploration', [
        'any exception on an incomplete PTB line counts as rejection; a returned tree is the violation',
        'the bank annotations are added by a harness-side printer of the format that is first checked to reproduce ja_of exactly']
