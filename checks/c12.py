"""C12 — rule labels and head directions on trees are those the grammar assigned.
(a) parser output; (b) trees produced by the treebank readers (added by checks/c12_readers)."""
from hypothesis import given, seed

from vlib import gen_sent, native, parser_checks as pc, runner
from vlib.tape import Tape, tapes

PROPERTY = 'C12'
RULE = ('(a) parser output over synthetic tables in which a category pair has 2-3 results with distinct labels/symbols '
        '(some sharing a category), unary entries with two targets and distinct labels, all head modes, plus the real '
        'grammars: every node must carry the (label, symbol, head direction) of a grammar result for its children that '
        'creates its category; (b) derivations licensed by the live grammar printed in auto / xml / jigg_xml / ptb and '
        'read back under the matching language: derivable binary nodes carry a deriving rule\'s label (and head '
        'direction where the format has no head field), only underivable nodes are unknown; non-trivial = a node whose '
        'children admit >=2 differently-labelled results (a) / a derivable binary node read back (b); distinct by digest')


@runner.guarded(PROPERTY)
def check_case(case, info=None):
    ev = pc.evaluate(case)
    if ev.exception is not None:
        return [(f'{PROPERTY}/parser-raises/{type(ev.exception).__name__}', str(ev.exception))]
    fails = pc.label_fails(ev, PROPERTY)
    if info is not None:
        info.update(pc.tree_stats(ev), n=ev.n, placeholder=ev.placeholder, multi=pc.count_multi_label_nodes(ev))
    return fails


def replay(case):
    if case.get('kind') == 'reader':
        from checks import c12_readers
        return c12_readers.check_case(case)
    native.setup()
    return check_case(case)


def build_case(data, mode):
    t = Tape(data)
    if mode == 'table':
        case = gen_sent.t_table_case(t, head_modes=('left', 'right', 'mixed'), n_max=t.pick([2, 3, 4, 5]), T_max=5,
                                     K_max=8, nbest_max=4, multi_label=True)
    else:
        case = gen_sent.t_real_case(t, t.pick(['en', 'ja']), n_max=5, nbest_max=3)
    case['config']['max_step'] = 20000
    return case


def _shard(ctx, shard, nshards):
    native.setup()
    for mode, n_examples, size in (('table', ctx.scale(800, 15000), 700), ('real', ctx.scale(60, 1200), 700)):
        def factory(mode=mode, n_examples=n_examples, size=size):
            @seed(runner.hseed(ctx, 12 if mode == 'table' else 112))
            @runner.hsettings(n_examples)
            @given(tapes(size))
            def test(data):
                case = build_case(data, mode)
                info = {}
                fails = check_case(case, info)
                cls = f"parser/{case['grammar']['kind']}/{case['head_mode']}/" + \
                    ('failed' if info.get('placeholder') else 'parsed') + \
                    ('/multi-label-node' if info.get('multi') else '') + ('/unary' if info.get('unary') else '')
                ctx.case(case, info.get('multi', 0) >= 1, cls=cls, sample={
                    'n': info.get('n'), 'head_mode': case['head_mode'], 'nodes_with_several_labelled_results': info.get('multi'),
                    'binary_nodes': info.get('binary'), 'unary_nodes': info.get('unary')})
                ctx.report(fails, case)
            return test
        ctx.hypothesis(factory)
    try:
        from checks import c12_readers
    except ImportError:
        return
    c12_readers.shard(ctx, shard, nshards)


def run(ctx):
    native.setup()       # translate + compile once, before the shard processes fork
    ctx.shards(_shard, 16, 16)
    return RULE, 'exploration', [
        'Tree.of_nltk_tree is driven with a duck-typed stand-in for nltk.tree.Tree (label() + children); Tree.nltk_tree needs NLTK itself and is not exercised',
        'Cython semantics of parsing.pyx are emulated by the pyxlite translator']
