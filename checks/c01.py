"""C01 — A* returns the highest-scoring derivation; pop priorities never increase."""
from hypothesis import given, seed

from vlib import gen_sent, native, parser_checks as pc, runner
from vlib.tape import Tape, tapes

PROPERTY = 'C01'
RULE = ('sentences (n 1-5 quick / 1-7 thorough) with dyadic, log-softmax and flattened score matrices over '
        'head-uniform synthetic rule tables (all-left / all-right, acyclic unary rules) and over the real English '
        '(left-headed) and Japanese (right-headed) rule functions with and without seen-rule filtering; random root '
        'sets, unary penalty, pruning size and beta; oracle = exhaustive chart DP over the beam-admitted tags + '
        'observation of every agenda pop through the guarded hook; non-trivial = n >= 2 and the oracle sees >= 2 '
        'complete derivations with different scores; distinct by case digest. The premise "as both shipped grammars do" '
        'is swept: every result for every shipped seen-rule pair has its grammar\'s one head direction')


@runner.guarded(PROPERTY)
def check_case(case, info=None):
    ev = pc.evaluate(case, want_pops=True)
    fails = []
    if ev.exception is not None:
        return [(f'{PROPERTY}/parser-raises/{type(ev.exception).__name__}', str(ev.exception))]
    lo, hi = pc.chart_bounds(ev)
    fails += pc.optimality_fails(ev, PROPERTY, lo, hi)
    fails += pc.monotone_fails(ev, PROPERTY)
    if info is not None:
        info.update(n=ev.n, feasible=hi['feasible'], second=hi['second'] is not None, placeholder=ev.placeholder,
                    pops=len(ev.pops or []), hook=ev.pops is not None, best=hi['best'])
        # greedy-misleading: best tag sequence is not the optimum's leaf sequence
        if ev.trees and not ev.placeholder:
            leaves = ev.trees[0].tree.leaves
            greedy = all(ev.sent['tag'][i][ev.tag_index[l.cat]] == max(ev.sent['tag'][i])
                         for i, l in enumerate(leaves) if l.cat in ev.tag_index)
            info['greedy_misleading'] = not greedy
    return fails


@runner.guarded(PROPERTY)
def check_head_uniform(lang, x, y):
    """'as both shipped grammars do': every result of a shipped grammar has that grammar's one head direction"""
    from depccg.grammar import en, ja
    from vlib.model_cat import canon, from_json, to_cat
    mod = en if lang == 'en' else ja
    mx, my = from_json(x), from_json(y)
    want = lang == 'en'
    fails = []
    for r in mod.apply_binary_rules(to_cat(mx), to_cat(my)):
        if bool(r.head_is_left) is not want:
            fails.append((f'{PROPERTY}/shipped-grammar-not-head-uniform/{lang}',
                          f'{lang}: {canon(mx)} {canon(my)} => {r.cat} [{r.op_string} {r.op_symbol}] has head_is_left='
                          f'{r.head_is_left}; every other rule of this grammar has {want} (the search keeps one item per '
                          'span and category, which is only sound when all rules share one head direction)'))
    return fails


def replay(case):
    if case.get('kind') == 'head-uniform':
        return check_head_uniform(case['lang'], case['x'], case['y'])
    native.setup()
    return check_case(case)


def build_case(data, mode, deep=False):
    t = Tape(data)
    if mode == 'table':
        return gen_sent.t_table_case(t, head_modes=('left', 'right'), n_max=t.pick([3, 4, 5, 6, 7] if deep else [3, 4, 5]),
                                     T_max=5 if deep else 4, K_max=8 if deep else 7)
    lang = t.pick(['en', 'ja'])
    return gen_sent.t_real_case(t, lang, n_max=7 if deep else 5)


def _shard(ctx, shard, nshards):
    native.setup()
    # the statement's premise about the shipped grammars: sweep every seen-rule pair of both grammars
    from vlib import gen_tree
    from vlib.model_cat import jsonable
    k = 0
    for lang in ('en', 'ja'):
        for (mx, my) in gen_tree.rule_index(lang).pairs:
            k += 1
            if k % nshards != shard:
                continue
            case = {'kind': 'head-uniform', 'lang': lang, 'x': jsonable(mx), 'y': jsonable(my)}
            fails = check_head_uniform(lang, case['x'], case['y'])
            ctx.case(['head-uniform', lang, k], True, cls=f'shipped-grammar-head-direction/{lang}')
            ctx.report_direct(fails, case)
    for mode, n_examples, size in (('table', ctx.scale(1200, 20000), 800), ('real', ctx.scale(100, 1500), 900)):
        def factory(mode=mode, n_examples=n_examples, size=size):
            @seed(runner.hseed(ctx, 1 if mode == 'table' else 101))
            @runner.hsettings(n_examples)
            @given(tapes(size))
            def test(data):
                case = build_case(data, mode, deep=not ctx.quick)
                info = {}
                fails = check_case(case, info)
                nontriv = info.get('n', 0) >= 2 and info.get('second', False)
                cls = f"{case['grammar']['kind']}/{case['head_mode']}/{case['numeric']}/" + \
                    ('failed' if info.get('placeholder') else 'parsed') + \
                    ('/greedy-misleading' if info.get('greedy_misleading') else '')
                ctx.notes['agenda_pops_observed'] = ctx.notes.get('agenda_pops_observed', 0) + info.get('pops', 0)
                if not info.get('hook', True):
                    ctx.notes['pop_hook_missing'] = 1
                ctx.case(case, nontriv, cls=cls, sample={
                    'n': info.get('n'), 'tags': case['tags'], 'roots': case['roots'][:4], 'config': case['config'],
                    'tag_scores': case['sentences'][0]['tag'], 'optimum': info.get('best'),
                    'grammar_kind': case['grammar']['kind'], 'head': case['head_mode']})
                ctx.report(fails, case)
            return test
        ctx.hypothesis(factory)


def run(ctx):
    native.setup()       # translate + compile once, before the shard processes fork
    n = 16
    ctx.shards(_shard, n, n)
    return RULE, 'exploration', [
        'Cython semantics of parsing.pyx are emulated by the pyxlite translator (DESIGN.md 3.2)',
        'exact comparison in the dyadic score class; tolerance 1e-4 relative otherwise',
        'step budget set high (budget behaviour belongs to C11)']
