"""C12 (b) — trees produced by the treebank readers carry the labels the active grammar assigns."""
import copy
import os

from hypothesis import given, seed

from vlib import gen_tree, model_tree as mt, runner
from vlib.tape import Tape, tapes

PROPERTY = 'C12'
FORMATS = {'en': ['auto', 'xml', 'ptb', 'nltk'], 'ja': ['auto', 'jigg_xml', 'nltk']}
HEAD_IN_FILE = {'auto'}            # formats whose file carries the head flag (all others take the rule's)
XML_EXCLUDE = '\\'          # token alphabet: XML-representable; backslash kept out so that auto/ptb can share cases
PTB_EXCLUDE = '\\()'


class _NLTKLikeTree(list):
    """duck-typed stand-in for nltk.tree.Tree (label() + list of children / [word]); NLTK itself is absent here"""

    def __init__(self, label, children):
        super().__init__(children)
        self._label = label

    def label(self):
        return self._label

    def set_label(self, label):
        self._label = label

    def height(self):
        return 1 + max((c.height() if isinstance(c, _NLTKLikeTree) else 1) for c in self) if len(self) else 1

    def leaves(self):
        out = []
        for c in self:
            out.extend(c.leaves() if isinstance(c, _NLTKLikeTree) else [c])
        return out

    def pos(self):
        if self.height() == 2:
            return [(self[0], self._label)]
        return [p for c in self for p in c.pos()]

    def subtrees(self, filter=None):
        if filter is None or filter(self):
            yield self
        for c in self:
            if isinstance(c, _NLTKLikeTree):
                yield from c.subtrees(filter)

    def treepositions(self, order='preorder'):
        out = [()]
        for i, c in enumerate(self):
            if isinstance(c, _NLTKLikeTree):
                out.extend((i,) + p for p in c.treepositions(order))
            else:
                out.append((i,))
        return out


def _as_nltk_like(tree):
    if tree.is_leaf:
        return _NLTKLikeTree(str(tree.cat), [tree.token['word']])
    return _NLTKLikeTree(str(tree.cat), [_as_nltk_like(c) for c in tree.children])


def _read(fmt, path, via_extension=False):
    from depccg.tools import reader
    if via_extension:
        return list(reader.read_trees_guess_extension(path))
    return list({'auto': reader.read_auto, 'xml': reader.read_xml, 'ptb': reader.read_ptb,
                 'jigg_xml': reader.read_jigg_xml}[fmt](path))


@runner.guarded(PROPERTY)
def check_case(case, info=None):
    from depccg.lang import set_global_language_to
    from depccg.printer import to_string
    from depccg.tree import ScoredTree
    from depccg.grammar import en, ja
    fails = []

    def bad(key, msg):
        fails.append((f'{PROPERTY}/reader/{key}', msg))
    tc = case['tree']
    system = tc['system']
    fmt = case['format']
    # the language active while READING decides which grammar labels the nodes; it may differ from the
    # feature system of the file's categories (an English-style file read in a Japanese session and vice versa)
    read_lang = case.get('read_lang', system)
    mod = en if read_lang == 'en' else ja
    set_global_language_to(read_lang)
    try:
        tree = gen_tree.tree_of_case(tc)
        if fmt == 'nltk':
            # Tree.of_nltk_tree recovers labels with the same function as the file readers
            from depccg.tree import Tree

            class _R:
                pass
            r_ = _R()
            try:
                r_.tree = Tree.of_nltk_tree(_as_nltk_like(tree))
            except Exception as ex:
                bad(f'nltk/raises/{type(ex).__name__}', f'{type(ex).__name__}: {ex}')
                return fails
            rs = [r_]
            text = None
        else:
            text = to_string(copy.deepcopy([[ScoredTree(tree, -1.0)]]), format=fmt)
        path = mt.scratch_file('.' + ('jigg.xml' if fmt == 'jigg_xml' else fmt))
        if text is not None:
            with open(path, 'w', encoding='utf-8') as f:
                f.write(text)
            try:
                try:
                    rs = _read(fmt, path, via_extension=bool(case.get('via_extension')))
                except Exception as ex:
                    bad(f'{fmt}/raises/{type(ex).__name__}', f'{type(ex).__name__}: {ex}')
                    return fails
            finally:
                os.unlink(path)
        if len(rs) != 1:
            bad(f'{fmt}/tree-count', f'{len(rs)} trees read')
            return fails
        derivable = [0]
        underivable = [0]

        def rec(o, r):
            if o.is_leaf or r.is_leaf:
                return
            if o.is_unary or r.is_unary:
                if o.is_unary and r.is_unary:
                    rec(o.children[0], r.children[0])
                return
            rec(o.children[0], r.children[0])
            rec(o.children[1], r.children[1])
            l, rr = r.children
            try:
                res = mod.apply_binary_rules(l.cat, rr.cat)
            except Exception:
                return
            deriving = [q for q in res if q.cat == r.cat]
            if deriving:
                derivable[0] += 1
                if (r.op_string, r.op_symbol) not in [(q.op_string, q.op_symbol) for q in deriving]:
                    bad(f'{fmt}/label', f'{l.cat} {rr.cat} => {r.cat} read back with label ({r.op_string}, {r.op_symbol}); '
                        f'the grammar derives it by {[(q.op_string, q.op_symbol) for q in deriving]}')
                elif fmt not in HEAD_IN_FILE and bool(r.head_is_left) not in [bool(q.head_is_left) for q in deriving
                                                                              if (q.op_string, q.op_symbol) == (r.op_string, r.op_symbol)]:
                    bad(f'{fmt}/head-direction', f'{l.cat} {rr.cat} => {r.cat} read back with head_is_left={r.head_is_left}; '
                        f'the deriving rule says {[q.head_is_left for q in deriving]}')
            else:
                # ("only underivable nodes are labelled unknown" says where 'unknown' may appear, not what an
                # underivable node must carry: a reader may keep the file's own label there)
                underivable[0] += 1
        if mt.shape(tree) != mt.shape(rs[0].tree):
            return fails        # round-trip of categories/shape is judged by C08 / C15 / C20
        rec(tree, rs[0].tree)
        if info is not None:
            info.update(derivable=derivable[0], underivable=underivable[0])
    finally:
        set_global_language_to('en')
    return fails


def build_case(data):
    t = Tape(data)
    system = t.pick(['en', 'en', 'ja'])
    fmt = t.pick(FORMATS[system])
    excl = PTB_EXCLUDE if fmt in ('ptb', 'nltk') else XML_EXCLUDE
    tc = gen_tree.t_tree_case(t, system, licensed=t.chance(200), max_leaves=6, tok_exclude=excl,
                              ja_tokens=(fmt == 'jigg_xml'))
    case = {'kind': 'reader', 'tree': tc, 'format': fmt}
    if system == 'en' and fmt in ('auto', 'xml', 'ptb', 'nltk') and t.chance(70):
        case['read_lang'] = 'ja'
    if fmt != 'nltk' and t.chance(80):
        case['via_extension'] = True       # read_trees_guess_extension dispatches on the file suffix
    return case


def sweep_cases(system):
    """every rule application of the index (each shipped seen-rule pair x each result the grammar gives it) as a
    two-leaf tree, once per format: pairs whose results differ only in features are met for certain, not by luck"""
    idx = gen_tree.rule_index(system)
    out = []
    for mr in idx.results:
        for (mx, my, lab, sym, hl) in idx.by_result[mr]:
            d = ('B', mr, ('L', mx), ('L', my), lab, sym, hl)
            for fmt in FORMATS[system]:
                if system == 'ja':
                    toks = [{'word': 'w0', 'surf': 'w0', 'base': '*', 'pos': '*'}, {'word': 'w1', 'surf': 'w1', 'base': '*', 'pos': '*'}] \
                        if fmt == 'jigg_xml' else [{'word': 'w0'}, {'word': 'w1'}]
                else:
                    toks = [{'word': 'w0', 'lemma': 'w0', 'pos': 'NN', 'entity': 'O', 'chunk': 'XX'},
                            {'word': 'w1', 'lemma': 'w1', 'pos': 'NN', 'entity': 'O', 'chunk': 'XX'}]
                out.append({'kind': 'reader', 'format': fmt,
                            'tree': {'system': system, 'licensed': True, 'deriv': gen_tree.deriv_json(d), 'tokens': toks}})
    return out


def shard(ctx, shard_index, nshards):
    for lang in ('en', 'ja'):
        gen_tree.rule_index(lang)
    k = 0
    for system in ('en', 'ja'):
        for case in sweep_cases(system):
            k += 1
            if k % nshards != shard_index:
                continue
            info = {}
            fails = check_case(case, info)
            ctx.case(case, info.get('derivable', 0) >= 1, cls=f"reader/{case['format']}/{system}/every-rule-application",
                     sample={'format': case['format'], 'system': system, 'derivable_binary_nodes': info.get('derivable')})
            ctx.report_direct(fails, case)
    if shard_index == 0:
        ctx.notes['reader_sweep_rule_applications'] = k

    def factory():
        @seed(runner.hseed(ctx, 1212))
        @runner.hsettings(ctx.scale(500, 10000))
        @given(tapes(900))
        def test(data):
            case = build_case(data)
            info = {}
            fails = check_case(case, info)
            cls = f"reader/{case['format']}/{case['tree']['system']}" + \
                (f"-read-as-{case['read_lang']}/" if case.get('read_lang') else '/') + \
                ('licensed' if case['tree']['licensed'] else 'arbitrary') + \
                ('/derivable-nodes' if info.get('derivable') else '') + ('/underivable-nodes' if info.get('underivable') else '')
            ctx.case(case, info.get('derivable', 0) >= 1, cls=cls,
                     sample={'format': case['format'], 'system': case['tree']['system'],
                             'derivable_binary_nodes': info.get('derivable'), 'underivable': info.get('underivable')})
            ctx.report(fails, case)
        return test
    ctx.hypothesis(factory)
