"""C03 — English combinatory rules are sound, and complete on identical matched parts."""
import itertools

from hypothesis import given, seed

from vlib import gen_cat, gen_pair, inventory, oracle_en as oe, runner
from vlib.model_cat import ORIGINS, canon, erase, from_json, jsonable, model_of, read, size, to_cat, to_cat_via
from vlib.tape import Tape, tapes

PROPERTY = 'C03'
RULE = ('ordered pairs of English categories: all pairs of the shipped en + rebank tag inventories (sharded sweep), '
        'pairs with categories one rule application away from the inventory, all pairs of categories with <=1 slash '
        'over a reduced alphabet (incl. X, nb, none, |), and Hypothesis-generated instantiations of the 13 schemas '
        'with 0-2 perturbations; oracle = schema table (soundness of every result, completeness when premises hold '
        'with identical matched parts); non-trivial = at least one rule fired or one schema premise holds; '
        'distinct by (x, y) text')

SCHEMA_PATTERNS = [("a/b", "b"), ("b", "a\\b"), ("a/b", "b/c"), ("b/c", "a\\b"), ("a/b", "(b/c)|d"),
                   ("(b/c)|d", "a\\b")]


@runner.guarded(PROPERTY)
def check_pair(mx, my, info=None, origins=('built', 'built')):
    from depccg.grammar import en
    fails = []

    def bad(key, msg):
        fails.append((f'{PROPERTY}/{key}', msg))
    x, y = to_cat_via(mx, origins[0]), to_cat_via(my, origins[1])
    tag = f'({canon(mx)} , {canon(my)})'
    try:
        results = en.apply_binary_rules(x, y)
    except Exception as ex:
        bad(f'raises/{type(ex).__name__}', f'{tag}: {type(ex).__name__}: {ex}')
        return fails
    x2, y2 = erase(mx, ('nb',)), erase(my, ('nb',))
    got = []
    for r in results:
        mr = model_of(r.cat)
        got.append((r.op_string, r.op_symbol, mr))
        if r.head_is_left is not True:
            bad(f'head/{r.op_string}', f'{tag} -> {r.cat} [{r.op_string}]: head is not the left child')
        why = oe.justify(x2, y2, mr, r.op_string, r.op_symbol)
        if why:
            bad(f'unsound/{r.op_string}{r.op_symbol}/{why}',
                f'{tag} -> {r.cat} labelled {r.op_string} {r.op_symbol}: {why}')
    got_by_label = {(g[0], g[2]) for g in got}
    for lab, sym, want in oe.expected(x2, y2):
        if (lab, want) not in got_by_label:       # (under whatever symbol the label is written)
            bad(f'incomplete/{lab}{sym}',
                f'{tag}: premises of {lab} {sym} hold with identical matched parts, expected {canon(want)}; '
                f'got {[(g[0], canon(g[2])) for g in got]}')
    # 'nb' is erased before rules are tried: results must not depend on nb marks
    if x2 != mx or y2 != my:
        r2 = en.apply_binary_rules(to_cat(x2), to_cat(y2))
        if [(r.op_string, r.op_symbol, model_of(r.cat), r.head_is_left) for r in r2] != \
                [(r.op_string, r.op_symbol, model_of(r.cat), r.head_is_left) for r in results]:
            bad('nb-dependence', f"{tag}: results differ from those of the 'nb'-erased pair")
    if info is not None:
        info['nres'] = len(results)
    return fails


def replay(case):
    return check_pair(from_json(case['x']), from_json(case['y']),
                      origins=(case.get('origin_x', 'built'), case.get('origin_y', 'built')))


def _do_pair(ctx, mx, my, cls, direct, extra=None):
    info = {'nres': 0}
    fails = check_pair(mx, my, info, origins=((extra or {}).get('origin_x', 'built'), (extra or {}).get('origin_y', 'built')))
    nres = info['nres']
    case = {'x': jsonable(mx), 'y': jsonable(my)}
    if extra:
        case.update(extra)
    nontriv = nres > 0 or oe.premises_hold(erase(mx, ('nb',)), erase(my, ('nb',)))
    ctx.case([canon(mx), canon(my)], nontriv, cls=cls + ('/fires' if nres else '/silent'),
             sample={'x': canon(mx), 'y': canon(my), 'results': nres, **(extra or {})})
    if direct:
        ctx.report_direct(fails, case)
    else:
        ctx.report(fails, case)


def inventory_models():
    strs = list(dict.fromkeys(inventory.targets('en') + inventory.targets('en_rebank')))
    ms = list(dict.fromkeys(read(s) for s in strs))
    return ms


def closure_models(inv, limit):
    """categories produced by applying the live grammar to inventory pairs (one level)"""
    from depccg.grammar import en
    cats = [to_cat(m) for m in inv]
    out = {}
    known = set(inv)
    step = max(1, (len(cats) * len(cats)) // 40000)
    k = 0
    for i, x in enumerate(cats):
        for j, y in enumerate(cats):
            k += 1
            if k % step:
                continue
            try:
                for r in en.apply_binary_rules(x, y):
                    m = model_of(r.cat)
                    if m not in known:
                        out.setdefault(m, None)
            except Exception:
                pass
    return list(out)[:limit]


def build_case(data):
    t = Tape(data)
    px, py = t.pick(SCHEMA_PATTERNS)
    mpx, mpy = read(px), read(py)
    n_pert = t.weighted([(4, 0), (3, 1), (1, 2)])
    mx, my, env, kinds = gen_pair.t_instance(t, mpx, mpy, 'en', n_pert, list('abcd'))
    if t.chance(40):
        # punctuation / conjunction schemas
        mx = t.pick([oe.COMMA, oe.SEMI, oe.CONJ, gen_cat.A('.'), gen_cat.A('LRB'), gen_cat.A('LQU'), gen_cat.A(':')])
        kinds = ['punct-left']
    elif t.chance(20):
        my = t.pick([oe.COMMA, gen_cat.A('.'), gen_cat.A('RRB'), gen_cat.A('RQU')])
        kinds = ['punct-right']
    return mx, my, {'schema': [px, py], 'perturbations': kinds,
                    'origin_x': ORIGINS[t.tail(0) % 4], 'origin_y': ORIGINS[t.tail(1) % 4]}


def _shard(ctx, shard, nshards):
    inv = inventory_models()
    n = len(inv)
    # 1. inventory pairs: quick = strided sample, thorough = all
    stride = 1
    k = 0
    for i in range(n):
        for j in range(n):
            k += 1
            if k % nshards != shard:
                continue
            if stride > 1 and ((i * 7919 + j * 104729 + ctx.seed) % stride):
                continue
            _do_pair(ctx, inv[i], inv[j], 'inventory', True)
    # 2. closure pairs (one rule application away)
    clo = closure_models(inv, ctx.scale(120, 600))
    sample_inv = inv[::ctx.scale(9, 3)]
    k = 0
    for c in clo:
        for m in sample_inv:
            k += 1
            if k % nshards != shard:
                continue
            _do_pair(ctx, c, m, 'closure', True)
            _do_pair(ctx, m, c, 'closure', True)
    # 3. bounded enumeration over the reduced alphabet
    vals = gen_cat.enum_cats('en', 1, bar=True, reduced=True)
    stride = ctx.scale(8, 1)
    k = 0
    for i, a in enumerate(vals):
        for j, b in enumerate(vals):
            k += 1
            if k % nshards != shard:
                continue
            # punctuation / conjunction atoms have rules of their own: their rows and columns are never sampled
            special = (a[0] == 'a' and a[1] in gen_cat.EN_PUNCT) or (b[0] == 'a' and b[1] in gen_cat.EN_PUNCT)
            if stride > 1 and not special and ((i * 31 + j * 17 + ctx.seed) % stride):
                continue
            _do_pair(ctx, a, b, 'bounded', True)
    if not ctx.quick:
        # deeper bound: a strided sample of the values with exactly two slashes against the one-slash values
        deep = gen_cat.enum_cats('en', 2, bar=True, reduced=True)[len(vals):]
        step_d = max(1, len(deep) // 2500)
        step_v = max(1, len(vals) // 48)
        k = 0
        for d_ in deep[(ctx.seed * 7) % step_d::step_d]:
            for v_ in vals[(ctx.seed * 3) % step_v::step_v]:
                k += 1
                if k % nshards != shard:
                    continue
                _do_pair(ctx, d_, v_, 'bounded-2-slashes', True)
                _do_pair(ctx, v_, d_, 'bounded-2-slashes', True)
    if shard == 0:
        ctx.notes['inventory_size'] = n
        ctx.notes['closure_categories'] = len(clo)
        ctx.notes['bounded_values'] = len(vals)
        ctx.notes['inventory_sweep_complete'] = True

    # 4. schema instantiations with perturbations (Hypothesis)
    def factory():
        @seed(runner.hseed(ctx, 3))
        @runner.hsettings(ctx.scale(1500, 40000))
        @given(tapes(160))
        def test(data):
            mx, my, extra = build_case(data)
            npert = len([p for p in extra['perturbations'] if ':' in p])
            _do_pair(ctx, mx, my, f'instantiated/{npert}-perturbations', False, extra)
        return test
    ctx.hypothesis(factory)


def run(ctx):
    n = 16
    ctx.shards(_shard, n, n)
    ctx.exhaustive = (f"all ordered pairs of the {ctx.notes.get('inventory_size')} distinct categories of "
                      'targets.en + targets.en_rebank'
                      + ('' if ctx.quick else f", and of the {ctx.notes.get('bounded_values')} categories "
                         'with <=1 slash over the reduced alphabet'))
    return RULE, 'exploration', [
        'conjunction over a feature-blind NP\\NP right input is neither required nor forbidden (dead clause in the code, statement silent)',
        "when the two composed-over categories differ, 'bare N or NP' is only enforced if both are bare"]
