"""C15 — XML formats round-trip and give ccg2lambda a complete derivation."""
import copy
import os
import re

from hypothesis import given, seed

from vlib import env, gen_tok, gen_tree, model_tree as mt, runner
from vlib.model_cat import canon, ftxt, from_json
from vlib.tape import Tape, tapes

PROPERTY = 'C15'
RULE = ('batches (1-3 sentences x 1-3 trees) of grammar-licensed and arbitrary trees with XML-representable tokens '
        '(brackets, quotes, &, <, >, backslash, CJK, emoji): C&C XML written and read back under en (categories, shape, five '
        'token attributes, labels of derivable nodes, record numbering); Jigg XML written and read back under ja '
        '(categories, shape, words); structural audit of every Jigg <sentence> (unique span ids, resolving child / '
        'terminal / root references, offsets tiling parent and sentence, exactly one root span per <ccg>); '
        'ccg2lambda build_ccg_tree isomorphic to the derivation with Jigg category spelling and rule labels; '
        'normalize_tokens output free of the normaliser\'s punctuation and a pure function of the token; the XML the '
        'printer hands to ccg2lambda uses the rule vocabulary of the shipped semantic templates; non-trivial = a tree with '
        'a unary node and n-best >= 2, or a token containing one of the normaliser\'s characters; distinct by case digest')

NORM_CHARS = '.,()!-'


def jigg_cat(m):
    """the Jigg spelling of a category (own statement of the format)"""
    if m[0] == 'a':
        f = m[2]
        if f is None:
            return m[1]
        if isinstance(f, tuple):
            return f'{m[1]}[{ftxt(f)}]'
        return f'{m[1]}[{f}=true]'

    def w(x):
        return '(' + jigg_cat(x) + ')' if x[0] == 'f' else jigg_cat(x)
    return w(m[1]) + m[2] + w(m[3])


_template_vocab = {}


def template_vocab(lang):
    if lang not in _template_vocab:
        p = os.path.join(env.REPO, 'depccg', 'models', f'semantic_templates_{lang}_event.yaml')
        try:
            # where the library itself says its templates are
            from depccg.instance_models import SEMANTIC_TEMPLATES
            q = str(SEMANTIC_TEMPLATES[lang])
            if os.path.exists(q):
                p = q
        except Exception:
            pass
        if not os.path.exists(p):
            import glob
            cand = sorted(glob.glob(os.path.join(env.REPO, 'depccg', 'models', f'semantic_templates_{lang}*.yaml')))
            if not cand:
                raise runner.HarnessError(f'semantic templates of {lang} not found')
            p = cand[0]
        txt = open(p, encoding='utf-8').read()
        vocab = set()
        for m in re.finditer(r'rule\s*:\s*("([^"]*)"|\'([^\']*)\'|([^,}\s]+))', txt):
            vocab.add(m.group(2) or m.group(3) or m.group(4))
        _template_vocab[lang] = vocab
    return _template_vocab[lang]


def audit_sentence(sent, bad, n_tokens, n_trees):
    spans_all = sent.xpath('.//span')
    ids = [sp.get('id') for sp in spans_all]
    if len(ids) != len(set(ids)):
        bad('jigg-audit/duplicate-span-id', f'span ids repeat inside one sentence: {sorted(i for i in ids if ids.count(i) > 1)[:4]}')
    toks = [tk.get('id') for tk in sent.xpath('./tokens/token')]
    if len(toks) != n_tokens or len(set(toks)) != len(toks):
        bad('jigg-audit/tokens', f'{len(toks)} token elements / ids {toks[:5]} for {n_tokens} words')
    ccgs = sent.xpath('./ccg')
    if len(ccgs) != n_trees:
        bad('jigg-audit/ccg-count', f'{len(ccgs)} <ccg> elements for {n_trees} trees')
    if len({c.get('id') for c in ccgs}) != len(ccgs):
        bad('jigg-audit/duplicate-ccg-id', 'ccg ids repeat inside one sentence')
    for ccg in ccgs:
        local = {sp.get('id'): sp for sp in ccg.xpath('./span')}
        if ccg.get('root') not in local:
            bad('jigg-audit/root-unresolved', f'root {ccg.get("root")} is not a span of its ccg')
            continue
        # exactly one span is the root: the one no span names as its child, which is the one <ccg root=...> names;
        # a root="true" marker, where present, sits on that span and on no other
        children = {c for sp in local.values() for c in (sp.get('child') or '').split()}
        top = [i for i in local if i not in children]
        marked = [sp.get('id') for sp in local.values() if sp.get('root') == 'true']
        if top != [ccg.get('root')] or any(m != ccg.get('root') for m in marked) or len(marked) > 1:
            bad('jigg-audit/root-count', f'spans that are no span\'s child: {top[:4]}; marked root="true": {marked[:4]}; '
                f'<ccg root={ccg.get("root")!r}>')
        leaves_pos = []
        for sp in local.values():
            b, e = int(sp.get('begin')), int(sp.get('end'))
            if sp.get('terminal') is not None:
                if sp.get('terminal') not in toks:
                    bad('jigg-audit/terminal-unresolved', f'terminal {sp.get("terminal")} is not a token of the sentence')
                elif toks.index(sp.get('terminal')) != b or e != b + 1:
                    bad('jigg-audit/terminal-offset', f'terminal {sp.get("terminal")} has offsets {b}-{e}')
                leaves_pos.append(b)
            if sp.get('child'):
                ch = sp.get('child').split()
                if any(c not in local for c in ch):
                    bad('jigg-audit/child-unresolved', f'child reference {ch} does not resolve inside the ccg')
                    continue
                cur = b
                for c in ch:
                    if int(local[c].get('begin')) != cur:
                        bad('jigg-audit/tiling', f'children of {sp.get("id")} do not tile it: child {c} begins at '
                            f'{local[c].get("begin")}, expected {cur}')
                    cur = int(local[c].get('end'))
                if cur != e:
                    bad('jigg-audit/tiling', f'children of {sp.get("id")} end at {cur}, parent ends at {e}')
        r = local[ccg.get('root')]
        if (int(r.get('begin')), int(r.get('end'))) != (0, n_tokens):
            bad('jigg-audit/root-span', f'root span covers {r.get("begin")}-{r.get("end")} of {n_tokens} tokens')
        if sorted(leaves_pos) != list(range(n_tokens)):
            bad('jigg-audit/leaves', f'terminal spans cover positions {sorted(leaves_pos)}')


def iso_fails(node, d, bad, rule_of):
    """ccg2lambda's nested span tree vs the derivation model"""
    cat = d[1]
    if node.get('category') != jigg_cat(cat):
        bad('ccg2lambda-tree/category', f'span category {node.get("category")!r}, derivation has {jigg_cat(cat)!r}')
    kids = [c for c in node if c.tag == 'span']
    if d[0] == 'L':
        if kids or node.get('terminal') is None:
            bad('ccg2lambda-tree/shape', 'a leaf of the derivation is not a terminal span')
        return
    want = rule_of(d)
    both = (d[3], d[4]) if d[0] == 'U' else (d[4], d[5])
    if node.get('rule') not in both:
        bad('ccg2lambda-tree/rule', f'span rule {node.get("rule")!r}, derivation node is labelled {want!r} '
            f'(symbol {both[1]!r})')
    sub = [d[2]] if d[0] == 'U' else [d[2], d[3]]
    if len(kids) != len(sub):
        bad('ccg2lambda-tree/shape', f'{len(kids)} nested spans for a node with {len(sub)} children')
        return
    for k, s in zip(kids, sub):
        iso_fails(k, s, bad, rule_of)


@runner.guarded(PROPERTY)
def check_case(case, info=None):
    from lxml import etree
    from depccg.lang import set_global_language_to
    from depccg.printer import to_string
    import depccg.printer as printer_mod
    from depccg.printer.jigg_xml import to_jigg_xml
    from depccg.tree import ScoredTree
    from depccg.grammar import en, ja
    from depccg.semantics.ccg2lambda.ccg2lambda_tools import build_ccg_tree, normalize_tokens
    from depccg.tools.reader import read_xml, read_jigg_xml
    fails = []

    def bad(key, msg):
        fails.append((f'{PROPERTY}/{key}', msg))
    system = case['system']
    set_global_language_to(system)
    try:
        def fresh():
            return [[ScoredTree(tr, -0.5 * (k + 1)) for k, tr in enumerate(gen_tree.sentence_trees(sent))]
                    for sent in case['batch']]
        # one set of result objects is used for every rendering of the case, the way a caller prints one parse result
        # in several formats (Jigg XML first)
        batch = fresh()

        def fresh():        # noqa: F811
            return batch
        to_jigg_xml(batch)
        flat = [(i, j, st.tree) for i, sent in enumerate(batch, 1) for j, st in enumerate(sent, 1)]
        derivs = [gen_tree.deriv_from_json(tc['deriv']) for sent in case['batch'] for tc in sent]
        mod = en if system == 'en' else ja
        if system == 'en':
            text = to_string(fresh(), format='xml')
            path = mt.scratch_file('.xml')
            with open(path, 'w', encoding='utf-8') as f:
                f.write(text)
            try:
                try:
                    rs = list(read_xml(path))
                except Exception as ex:
                    bad(f'xml/reader-raises/{type(ex).__name__}', f'{type(ex).__name__}: {ex}')
                    rs = None
            finally:
                os.unlink(path)
            if rs is not None:
                if len(rs) != len(flat):
                    bad('xml/tree-count', f'{len(flat)} trees written, {len(rs)} read')
                else:
                    keys = ('word', 'pos', 'entity', 'lemma', 'chunk')
                    for (i, j, orig), r in zip(flat, rs):
                        want = mt.shape(orig, leaf=lambda t: tuple(t.token.get(k) for k in keys))
                        got = mt.shape(r.tree, leaf=lambda t: tuple(t.token.get(k) for k in keys))
                        if want != got:
                            bad('xml/tree-differs', mt.first_diff(want, got))
                            continue
                        if [dict(t) for t in r.tokens] != [dict(l.token) for l in orig.leaves]:
                            bad('xml/token-list', 'reader token list differs from the leaves')
                        _labels(orig, r.tree, mod, bad, 'xml')
        else:
            text = to_string(fresh(), format='jigg_xml')
            path = mt.scratch_file('.jigg.xml')
            with open(path, 'w', encoding='utf-8') as f:
                f.write(text)
            try:
                try:
                    rs = list(read_jigg_xml(path))
                except Exception as ex:
                    bad(f'jigg/reader-raises/{type(ex).__name__}', f'{type(ex).__name__}: {ex}')
                    rs = None
            finally:
                os.unlink(path)
            if rs is not None:
                if len(rs) != len(flat):
                    bad('jigg/tree-count', f'{len(flat)} trees written, {len(rs)} read')
                else:
                    for (i, j, orig), r in zip(flat, rs):
                        want = mt.shape(orig, leaf=lambda t: (t.token.get('word'),))
                        got = mt.shape(r.tree, leaf=lambda t: (t.token.get('word'),))
                        if want != got:
                            bad('jigg/tree-differs', mt.first_diff(want, got))
        # ---- structural audit + ccg2lambda bridge on the element tree itself
        x = to_jigg_xml(fresh())
        sents = x.xpath('//sentence')
        if len(sents) != len(batch):
            bad('jigg-audit/sentence-count', f'{len(sents)} <sentence> elements for {len(batch)} sentences')
        k = 0
        for si, (sent_el, sent) in enumerate(zip(sents, batch)):
            n_tok = len(sent[0].tree.leaves)
            audit_sentence(sent_el, bad, n_tok, len(sent))
            for ccg in sent_el.xpath('./ccg'):
                d = derivs[k] if k < len(derivs) else None
                k += 1
                if d is None:
                    continue
                try:
                    built = build_ccg_tree(ccg)
                except Exception as ex:
                    bad(f'ccg2lambda-tree/raises/{type(ex).__name__}', f'build_ccg_tree: {type(ex).__name__}: {ex}')
                    continue
                if built is None:
                    bad('ccg2lambda-tree/none', 'build_ccg_tree returned None')
                    continue
                iso_fails(built, d, bad, lambda dd: dd[3] if dd[0] == 'U' else dd[4])
            toks = sent_el.xpath('./tokens/token')
            originals = [copy.deepcopy(tk) for tk in toks]
            before = [(tk.get('surf'), tk.get('base')) for tk in toks]
            try:
                tokens_el = sent_el.find('./tokens')
                ret = normalize_tokens(tokens_el if tokens_el is not None else toks)
                if ret is not None and not isinstance(ret, (str, bytes)) and len(ret) == len(toks):
                    toks = list(ret)        # (normalised in place or handed back: either way these are the results)
                else:
                    toks = sent_el.xpath('./tokens/token')
            except Exception as ex:
                bad(f'normalize/raises/{type(ex).__name__}', f'{type(ex).__name__}: {ex}')
                continue
            for (surf0, base0), tk, orig_tk in zip(before, toks, originals):
                for attr, orig_v in (('surf', surf0), ('base', base0 if base0 != '*' else surf0)):
                    v = tk.get(attr)
                    if v is None or orig_v is None:
                        continue
                    if orig_v.startswith('_'):
                        continue          # treated by the normaliser as already normalised: not fixed by the statement
                    if not v.startswith('_') or any(c in v for c in NORM_CHARS) or v == '&':
                        bad('normalize/punctuation', f'{attr} {orig_v!r} normalised to {v!r}')
                    # pure function of the token: the same text normalises the same way on its own
                    holder = etree.Element('tokens')
                    el = copy.deepcopy(orig_tk)
                    holder.append(el)
                    ret1 = normalize_tokens(holder)
                    if ret1 is not None and not isinstance(ret1, (str, bytes)) and len(ret1) == 1:
                        el = ret1[0]
                    else:
                        el = holder[0]
                    if el.get(attr) != v:
                        bad('normalize/not-pure', f'{attr} {orig_v!r} gives {v!r} in the sentence and {el.get(attr)!r} alone')
        # ---- what the printer hands to ccg2lambda
        captured = []

        class _Fake:
            @staticmethod
            def parse(*a, **kw):
                jigg_xml = a[0] if a else next(v for k_, v in kw.items() if k_ in ('ccg', 'jigg_xml', 'xml', 'root'))
                captured.append(jigg_xml)
                n = [len(s.xpath('./ccg')) for s in jigg_xml.xpath('//sentence')]
                return b'<root/>', [['formula'] * k for k in n]
        import importlib
        saved = []
        if hasattr(printer_mod, 'ccg2lambda'):
            saved.append((printer_mod, 'ccg2lambda', printer_mod.ccg2lambda))
            printer_mod.ccg2lambda = _Fake
        try:
            home = importlib.import_module('depccg.semantics.ccg2lambda.parse')
            real_parse = home.parse
            saved.append((home, 'parse', real_parse))
            home.parse = _Fake.parse          # (a printer that imports the function lazily finds it here)
            for name_, val_ in list(vars(printer_mod).items()):
                if val_ is real_parse:        # (... and one that bound the function itself under some name, here)
                    saved.append((printer_mod, name_, val_))
                    setattr(printer_mod, name_, _Fake.parse)
        except Exception:
            pass
        try:
            for fmt in ('jigg_xml_ccg2lambda', 'ccg2lambda'):
                try:
                    to_string(fresh(), format=fmt)
                except Exception as ex:
                    bad(f'bridge/{fmt}/raises/{type(ex).__name__}', f'{type(ex).__name__}: {ex}')
        finally:
            for mod_, name_, old_ in saved:
                setattr(mod_, name_, old_)
        vocab = template_vocab(system)
        for xml in captured:
            import collections
            rules = collections.Counter(sp.get('rule') for sp in xml.xpath('//span[@rule]'))
            want_rules = collections.Counter()
            for d in derivs:
                for lab, sym in gen_tree.labels_of(d):
                    if sym in vocab and lab not in vocab:
                        want_rules[sym] += 1
                    elif lab in vocab and sym not in vocab:
                        want_rules[lab] += 1
            # (in whatever order the spans are written: every node whose template key is decided by the vocabulary
            # must appear under that key)
            for key_, n_ in want_rules.items():
                if rules.get(key_, 0) < n_:
                    bad('bridge/rule-vocabulary', f'the semantic templates of {system} key on {key_!r} ({n_} node(s) of the '
                        f'batch); the XML handed to ccg2lambda carries rule attributes {dict(rules)}')
                    break
    finally:
        set_global_language_to('en')
    return fails


def _labels(orig, read, mod, bad, fmt):
    def rec(o, r):
        if o.is_leaf:
            return
        if o.is_unary:
            rec(o.children[0], r.children[0])
            return
        rec(o.children[0], r.children[0])
        rec(o.children[1], r.children[1])
        l, rr = r.children
        res = [q for q in mod.apply_binary_rules(l.cat, rr.cat) if q.cat == r.cat]
        if res and (r.op_string, r.op_symbol) not in [(q.op_string, q.op_symbol) for q in res]:
            bad(f'{fmt}/label', f'{l.cat} {rr.cat} => {r.cat} read back labelled ({r.op_string}, {r.op_symbol})')
    rec(orig, read)


def replay(case):
    return check_case(case)


def build_case(data):
    t = Tape(data)
    system = t.pick(['en', 'ja'])
    nsent = t.weighted([(4, 1), (2, 2), (1, 3)])
    batch = []
    if t.chance(40):
        # one file with two nodes over the same child categories but different result categories
        pair = gen_tree.t_ambiguous_pair(t, gen_tree.rule_index(system))
        if pair:
            toks = [(gen_tok.t_token_ja if system == 'ja' else gen_tok.t_token_en)(t, '') for _ in range(2)]
            tcs = [{'system': system, 'licensed': True, 'deriv': gen_tree.deriv_json(d), 'tokens': toks} for d in pair]
            batch = [[tcs[0]], [tcs[1]]] if t.chance(128) else [[tcs[0], tcs[1]]]
            if t.chance(128):
                batch.reverse()
    for _ in range(nsent if not batch else 0):
        nb = t.weighted([(3, 1), (2, 2), (1, 3)])
        first = gen_tree.t_tree_case(t, system, max_leaves=5, tok_exclude='', ja_tokens=(system == 'ja'))
        sent = [first]
        n = len(first['tokens'])
        for _ in range(nb - 1):
            # other trees of the n-best list are over the same tokens
            for _try in range(6):
                other = gen_tree.t_tree_case(t, system, licensed=False, max_leaves=n, tok_exclude='',
                                             ja_tokens=(system == 'ja'))
                if len(other['tokens']) == n:
                    break
            if len(other['tokens']) != n:
                other = copy.deepcopy(first)
            other['tokens'] = first['tokens']
            sent.append(other)
        batch.append(sent)
    if system == 'ja' and t.tail(0) % 4 == 0:
        # a token whose own 'surf' attribute is not the word of the leaf (an annotator that keeps the unnormalised
        # surface): the words of the derivation are what the file has to give back
        sent = batch[t.tail(1) % len(batch)]
        toks = sent[0]['tokens']
        tok = toks[t.tail(2) % len(toks)]
        tok['surf'] = tok['word'] + '゙' if t.tail(3) % 2 else 'Ｘ' + tok['word']
    return {'system': system, 'batch': batch}


def _shard(ctx, shard, nshards):
    for lang in ('en', 'ja'):
        gen_tree.rule_index(lang)

    def factory():
        @seed(runner.hseed(ctx, 15))
        @runner.hsettings(ctx.scale(600, 10000))
        @given(tapes(1800))
        def test(data):
            case = build_case(data)
            words = [tk['word'] for s in case['batch'] for tk in s[0]['tokens']]
            nb = max(len(s) for s in case['batch'])
            derivs = [gen_tree.deriv_from_json(tc['deriv']) for s in case['batch'] for tc in s]
            normch = any(any(c in w for c in NORM_CHARS) for w in words)
            nontriv = (nb >= 2 and any(gen_tree.has_unary(d) for d in derivs)) or normch
            cls = f"{case['system']}/nbest={nb}/sentences={len(case['batch'])}" + ('/normaliser-chars' if normch else '')
            ctx.case(case, nontriv, cls=cls, sample={'system': case['system'], 'words': words[:8], 'nbest': nb})
            ctx.report(check_case(case), case)
        return test
    ctx.hypothesis(factory)


def run(ctx):
    n = ctx.scale(8, 16)
    ctx.shards(_shard, n, n)
    return RULE, 'exploration', [
        'NLTK is absent: the semantic composition itself is not run; the bridge is checked up to build_ccg_tree / '
        'normalize_tokens and up to the XML the printer hands to ccg2lambda.parse (captured by substituting that function)',
        '"logic punctuation" = the characters the normaliser documents (. , ( ) ! - and a bare &); tokens that already '
        'start with an underscore are treated by the normaliser as normalised and are not judged',
        'one set of result objects is rendered in all formats of a case (Jigg XML first), as a caller would']
