"""C05 — category text <-> value round trip; associativity is never guessed."""
from hypothesis import given, seed

from vlib import gen_cat, inventory, runner
from vlib.model_cat import ReadError, canon, from_json, jsonable, model_of, read, size, to_cat
from vlib.tape import Tape, tapes

PROPERTY = 'C05'
RULE = ('category values generated as models (unary and three-part features, slashes / \\ |; exhaustive '
        'up to a slash bound over a reduced alphabet plus random nesting to depth 4), each printed, parsed '
        'back, and re-parsed from texts with redundant round/angle brackets and blanks; texts with one needed '
        'bracket pair removed must be rejected; every category string of the shipped model files and of '
        'tests/cats*.txt; non-trivial = value with >=1 slash, or a variant text different from the canonical '
        'one, or an ambiguous text; distinct by (value, text) digest')


def _parse(text):
    from depccg.cat import Category
    return Category.parse(text)


@runner.guarded(PROPERTY)
def check_value(mc, variants=(), ambiguous=()):
    fails = []

    def bad(key, msg):
        fails.append((f'{PROPERTY}/{key}', msg))
    want = canon(mc)
    c = to_cat(mc)
    try:
        s = str(c)
    except Exception as ex:
        bad('print-raises', f'str of {want}: {type(ex).__name__}: {ex}')
        return fails
    if s != want:
        bad('print', f'value {want} prints as {s!r}')
    try:
        p = _parse(s)
        if not (p == c) or model_of(p) != mc:
            bad('print-parse', f'parse(str(c)) for c={want} gives {p} / {model_of(p)}')
    except Exception as ex:
        bad('print-parse', f'parse({s!r}) raised {type(ex).__name__}: {ex}')
    for t in variants:
        try:
            p = _parse(t)
        except Exception as ex:
            bad('variant-rejected', f'well-formed text {t!r} of {want} rejected: {type(ex).__name__}: {ex}')
            continue
        if model_of(p) != mc or not (p == c):
            bad('variant-value', f'text {t!r} of {want} read as {p}')
        elif str(p) != want:
            bad('variant-print', f'text {t!r} reads to a value printing {str(p)!r}, canonical {want!r}')
        try:
            if read(t) != mc:
                bad('oracle-reader', f'harness reader disagrees on {t!r}')
        except ReadError as ex:
            bad('oracle-reader', f'harness reader rejects {t!r}: {ex}')
    for t in ambiguous:
        try:
            p = _parse(t)
        except Exception:
            continue
        bad('ambiguous-accepted', f'text {t!r} has two unbracketed slashes at one level but was read as {p}')
    return fails


@runner.guarded(PROPERTY)
def check_shipped(table, s):
    fails = []
    try:
        c = _parse(s)
        t = str(c)
    except Exception as ex:
        return [(f'{PROPERTY}/shipped-unreadable', f'{table}: {s!r}: {type(ex).__name__}: {ex}')]
    s0 = s.replace(' ', '')   # blanks never matter (targets.en spells the comma category ', ')
    if t != s0 and '(' + t + ')' != s0:
        # the same text "up to redundant brackets and blanks": both spellings read, by the harness's own reader, as
        # one value
        try:
            same = read(s) == read(t)
        except ReadError:
            same = False
        if not same:
            fails.append((f'{PROPERTY}/shipped-roundtrip', f'{table}: {s!r} prints back as {t!r}'))
    try:
        m = read(s)
        if model_of(c) != m:
            fails.append((f'{PROPERTY}/shipped-value', f'{table}: {s!r} read as {model_of(c)}, grammar says {m}'))
    except ReadError as ex:
        fails.append((f'{PROPERTY}/oracle-reader', f'harness reader rejects shipped {s!r}: {ex}'))
    if not (_parse(t) == c):
        fails.append((f'{PROPERTY}/shipped-roundtrip', f'{table}: {s!r}: parse(str(parse(s))) differs'))
    return fails


def replay(case):
    if case.get('kind') == 'pickle':
        return []       # (a cross-interpreter finding is re-derived by the run itself, not from a saved case)
    if case.get('kind') == 'shipped':
        return check_shipped(case['table'], case['text'])
    return check_value(from_json(case['c']), case.get('variants', []), case.get('ambiguous', []))


def t_text_ambiguous(t, m):
    """text of m (with noise) in which one inner functor operand lost its needed brackets"""
    inner = []

    def collect(x, path, top):
        if x[0] == 'f':
            if not top:
                inner.append(path)
            collect(x[1], path + (1,), False)
            collect(x[3], path + (3,), False)
    collect(m, (), True)
    if not inner:
        return None
    target = t.pick(inner)

    def rec(x, path, top):
        if x[0] == 'a':
            return gen_cat.t_text(t, x, top)
        s = rec(x[1], path + (1,), False) + t.pick(gen_cat._SP) + x[2] + t.pick(gen_cat._SP) + rec(x[3], path + (3,), False)
        if path == target:
            return s            # needed brackets dropped, no redundant ones either
        k = t.below(2) + (0 if top else 1)
        for _ in range(k):
            o, c = t.pick(['()', '()', '<>'])
            s = o + t.pick(gen_cat._SP) + s + t.pick(gen_cat._SP) + c
        return s
    return rec(m, (), True)


def build_case(data):
    t = Tape(data)
    sysm = t.pick(['en', 'en', 'ja'])
    mc = gen_cat.t_cat(t, sysm, depth=4, bar=True, exotic=True)
    variants = [gen_cat.t_text(t, mc, True, 2) for _ in range(3)]
    amb = gen_cat.ambiguous_texts(mc)[:4]
    a = t_text_ambiguous(t, mc)
    if a is not None:
        amb.append(a)
    return {'kind': 'value', 'c': jsonable(mc), 'variants': variants, 'ambiguous': amb}


def fuzz_one(data):
    case = build_case(bytes(data).ljust(160, b'\0')[:160])
    return check_value(from_json(case['c']), case['variants'], case['ambiguous']), case


def _hyp(ctx, n_examples):
    def factory():
        @seed(runner.hseed(ctx, 5))
        @runner.hsettings(n_examples)
        @given(tapes(160))
        def test(data):
            case = build_case(data)
            mc = from_json(case['c'])
            want = canon(mc)
            nontriv = size(mc) >= 1 or any(v != want for v in case['variants'])
            cls = ('ja' if 'mod=' in want or 'case=' in want else 'en') + f'/slashes={min(size(mc), 4)}' \
                + ('/ambiguous' if case['ambiguous'] else '')
            ctx.case(case, nontriv, cls=cls,
                     sample={'value': want, 'variants': case['variants'], 'ambiguous': case['ambiguous'][:2]})
            ctx.notes['ambiguous_texts_tried'] = ctx.notes.get('ambiguous_texts_tried', 0) + len(case['ambiguous'])
            ctx.report(check_value(mc, case['variants'], case['ambiguous']), case)
        return test
    ctx.hypothesis(factory)


CHILD = r"""
import sys, pickle, json
sys.path.insert(0, sys.argv[1])
from vlib import env
from depccg.cat import Category
cats = pickle.load(sys.stdin.buffer)
bad = []
for c in cats:
    t = str(c)
    f = Category.parse(t)
    g = Category.parse('(' + t + ')')
    if not (f == c) or not (c == f) or not (g == c) or not (c == g) or str(f) != t:
        bad.append(t)
print(json.dumps(bad))
"""


def cross_process(ctx, shard):
    """values that were used here (hashed, compared, printed) and then reached another interpreter by pickle, as
    the categories of a worker's results do: printing and parsing back still gives an equal category there"""
    import json
    import os
    import pickle
    import subprocess
    import sys
    from vlib import env
    from vlib.model_cat import to_cat
    vals = gen_cat.enum_cats('en', 2, bar=True, reduced=True)[shard * 7::97][:150] + \
        gen_cat.enum_cats('ja', 2, bar=True, reduced=True)[shard * 7::97][:150]
    cats = [to_cat(m) for m in vals]
    for c in cats:
        hash(c)
        str(c)
        c == cats[0]
        {c: 1}
    e = dict(os.environ, PYTHONHASHSEED=str(2000 + shard), VERIF_REPO=env.REPO)
    r = subprocess.run([sys.executable, '-c', CHILD, env.VERIF], input=pickle.dumps(cats), capture_output=True, env=e,
                       timeout=300)
    if r.returncode != 0:
        fails = [(f'{PROPERTY}/pickled-value-unusable', f'child interpreter failed on pickled categories: '
                  f'{r.stderr.decode()[-300:]}')]
        bad = ['?']
    else:
        bad = json.loads(r.stdout.decode().strip().split('\n')[-1])
        fails = [(f'{PROPERTY}/pickled-value-roundtrip', f'{bad[:3]} received by pickle in another interpreter (hash seed '
                  f'{2000 + shard}): parsing its printed text back does not give an equal category')] if bad else []
    ctx.count(len(cats), cls='cross-process-pickle')
    ctx.notes['cross_process_pickled_values'] = ctx.notes.get('cross_process_pickled_values', 0) + len(cats)
    ctx.report_direct(fails, {'kind': 'pickle', 'values': [str(b) for b in bad[:5]]})


def _shard(ctx, shard, nshards, max_slashes):
    cross_process(ctx, shard)
    # exhaustive bounded enumeration, strided over shards
    n_enum = 0
    for system in ('en', 'ja'):
        vals = gen_cat.enum_cats(system, max_slashes, bar=True, reduced=True)
        for i in range(shard, len(vals), nshards):
            mc = vals[i]
            amb = gen_cat.ambiguous_texts(mc)
            case = {'kind': 'value', 'c': jsonable(mc), 'variants': ['(' + canon(mc) + ')', '< ' + canon(mc) + ' >'],
                    'ambiguous': amb}
            ctx.case(case, size(mc) >= 1, cls=f'enum-{system}')
            ctx.report_direct(check_value(mc, case['variants'], amb), case)
        if shard == 0:
            ctx.notes.setdefault('enumerated_values', {})[system] = len(vals)
        n_enum += len(vals)
    # shipped strings
    if shard == 0:
        strings = inventory.all_category_strings(True)
        seen = set()
        for table, s in strings:
            if (table, s) in seen:
                continue
            seen.add((table, s))
            case = {'kind': 'shipped', 'table': table, 'text': s}
            ctx.case(case, True, cls='shipped/' + table)
            ctx.report_direct(check_shipped(table, s), case)
        for s in inventory.test_category_strings():
            case = {'kind': 'shipped', 'table': 'tests/cats*.txt', 'text': s}
            ctx.case(case, True, cls='shipped/tests')
            ctx.report_direct(check_shipped('tests', s), case)
        ctx.notes['shipped_string_occurrences'] = len(strings)
        ctx.notes['shipped_distinct_table_string_pairs'] = len(seen)
    _hyp(ctx, ctx.scale(2500, 80000))
    if shard == 1 and not ctx.quick:
        from vlib import fuzz
        fuzz.campaign(ctx, 'c05', 150000)


def run(ctx):
    n = ctx.scale(8, 16)
    max_slashes = ctx.scale(2, 2)
    ctx.shards(_shard, n, n, max_slashes)
    ctx.exhaustive = (f'all category values with <= {max_slashes} slashes over the reduced alphabets '
                      f"({ctx.notes.get('enumerated_values')}), and every category string of the shipped model "
                      'files and tests/cats*.txt')
    return RULE, 'exploration', [
        "blanks are ASCII spaces between tokens (the reader's documented tokenisation); feature text is one token",
        'any exception on an ambiguous text counts as rejection']
