"""C16 — the supertag beam is honoured."""
from hypothesis import given, seed

from vlib import gen_sent, native, oracle_chart as oc, parser_checks as pc, runner
from vlib.tape import Tape, tapes

PROPERTY = 'C16'
RULE = ('adversarial tag-score rows: best tag s0, the others at s0 + log(beta) +/- {0.01, 0.5, 3}, ranks straddling '
        'pruning_size, rows flattened to -1e33, beta filter on and off, over head-uniform synthetic tables in which some '
        'sentences are derivable only through an excluded tag; oracle = statement-level beam (must_admit <= may_admit '
        'under ties / tolerance) + chart DP: leaves within may_admit, score between the optima over the two sets, '
        'infeasible over may_admit => placeholder; non-trivial = some word has a tag the beam must exclude; distinct '
        'by case digest')


@runner.guarded(PROPERTY)
def check_case(case, info=None):
    ev = pc.evaluate(case)
    if ev.exception is not None:
        return [(f'{PROPERTY}/parser-raises/{type(ev.exception).__name__}', str(ev.exception))]
    fails = []
    # leaves within may_admit
    for f in pc.validity_fails(ev, PROPERTY):
        if '/leaf-not-admitted' in f[0] or '/leaf-not-a-tag' in f[0]:
            fails.append(f)
    lo, hi = pc.chart_bounds(ev)
    fails += pc.optimality_fails(ev, PROPERTY, lo, hi)
    if info is not None:
        T = len(case['tags'])
        excluded = any(len(ma) < T for ma in ev.may)
        by_beta = False
        for i, row in enumerate(ev.sent['tag']):
            order = sorted(range(T), key=lambda c: -row[c])
            for rank, c in enumerate(order):
                if rank < ev.cfg['pruning_size'] and c not in ev.may[i]:
                    by_beta = True
        full = [set(range(T))] * ev.n
        allfeasible = oc.chart(ev.n, pc.leaf_scores(ev, full), ev.memo, ev.roots, ev.sent['dep'],
                               float(ev.cfg['unary_penalty']), ev.head_mode == 'left')['feasible']
        info.update(n=ev.n, excluded=excluded, by_beta=by_beta, placeholder=ev.placeholder,
                    only_excluded=allfeasible and not hi['feasible'], exact=ev.beam_exact)
    return fails


def replay(case):
    native.setup()
    return check_case(case)


def build_case(data):
    t = Tape(data)
    return gen_sent.t_table_case(t, head_modes=('left', 'right'), n_max=t.pick([2, 3, 4, 5]), T_max=5, K_max=7,
                                 numerics=('dyadic', 'logsoftmax', 'flat'), beam='adversarial')


def _shard(ctx, shard, nshards):
    native.setup()

    def factory():
        @seed(runner.hseed(ctx, 16))
        @runner.hsettings(ctx.scale(1200, 30000))
        @given(tapes(700))
        def test(data):
            case = build_case(data)
            info = {}
            fails = check_case(case, info)
            cls = ('beta-on' if case['config']['use_beta'] else 'beta-off') + \
                ('/excludes-by-beta' if info.get('by_beta') else '') + \
                ('/only-derivation-needs-excluded-tag' if info.get('only_excluded') else '') + \
                ('/boundary' if not info.get('exact', True) else '') + \
                ('/failed' if info.get('placeholder') else '/parsed')
            ctx.case(case, bool(info.get('excluded')), cls=cls, sample={
                'tag_scores': case['sentences'][0]['tag'], 'beta': case['config']['beta'],
                'use_beta': case['config']['use_beta'], 'pruning_size': case['config']['pruning_size'],
                'failed': info.get('placeholder')})
            ctx.report(fails, case)
        return test
    ctx.hypothesis(factory)


def run(ctx):
    native.setup()       # translate + compile once, before the shard processes fork
    ctx.shards(_shard, 16, 16)
    return RULE, 'exploration', [
        'ties at the rank boundary and scores within 1e-4 (relative) of the beta threshold are accepted either way',
        'rows whose best score underflows exp() in float32 (< -80) are treated as boundary cases',
        'Cython semantics of parsing.pyx are emulated by the pyxlite translator']
