"""M-chart, M-enum, M-beam and the scoring rule of C09, all independent of parsing.h.

The grammar is a black box: binary(x, y) / unary(x) -> lists of results with .cat, .op_string,
.op_symbol, .head_is_left.  Scores are Python floats (float64).
"""
import math

NEG = float('-inf')


# ------------------------------------------------------------------ M-beam
def admitted(row, pruning_size, beta, use_beta, eps=1e-4):
    """row: list of tag scores of one word -> (must_admit, may_admit) sets of tag indices.
    tag t admitted iff rank(t) < pruning_size and (filter off or p_t >= beta * p_best)."""
    T = len(row)
    best = max(row)
    must, may = set(), set()
    thr = math.log(beta) if (use_beta and beta > 0) else None
    for c in range(T):
        higher = sum(1 for d in range(T) if row[d] > row[c])
        ties = sum(1 for d in range(T) if row[d] == row[c] and d != c)
        if higher >= pruning_size:
            continue
        ok_must = (higher + ties) < pruning_size
        ok_may = True
        if thr is not None:
            lhs = row[c] - best
            tol = eps * (1 + abs(thr))
            if lhs < thr - tol:
                ok_may = ok_must = False
            elif lhs < thr + tol:
                ok_must = False
            # a lower-ranked tag is only reached if every higher-ranked one passed the threshold,
            # which holds automatically (they have higher scores)
        if best < -80:            # exp underflows in float32: the statement and any implementation may differ
            ok_must = False
        if ok_may:
            may.add(c)
        if ok_must:
            must.add(c)
    return must, may


# ------------------------------------------------------------------ scoring rule (C09)
def tree_score(tree, tag_index, tag, dep, unary_penalty):
    """score of a returned Tree by the statement's rule, using the tree's own head flags.
    tag_index: Category -> column.  Returns (score, problems)"""
    problems = []
    pos = [0]

    def rec(node):
        if node.is_leaf:
            i = pos[0]
            pos[0] += 1
            col = tag_index.get(node.cat)
            if col is None or i >= len(tag):
                problems.append(f'leaf {i} carries {node.cat}, which is not a column of the tag matrix')
                return 0.0, i
            return float(tag[i][col]), i
        if node.is_unary:
            s, h = rec(node.children[0])
            return s - unary_penalty, h
        sl, hl = rec(node.children[0])
        sr, hr = rec(node.children[1])
        if node.head_is_left:
            gov, depd = hl, hr
        else:
            gov, depd = hr, hl
        if depd >= len(dep) or gov + 1 >= len(dep[0]):
            problems.append('head index outside the sentence')
            return sl + sr, gov
        return sl + sr + float(dep[depd][gov + 1]), gov
    s, h = rec(tree)
    if h < len(dep):
        s += float(dep[h][0])
    return s, problems


# ------------------------------------------------------------------ M-chart
class Memo:
    """memoised black-box grammar (results as tuples of (cat, label, symbol, head_is_left))"""

    def __init__(self, grammar):
        self.g = grammar
        self.b = {}
        self.u = {}

    def binary(self, x, y):
        k = (x, y)
        r = self.b.get(k)
        if r is None:
            r = [(q.cat, q.op_string, q.op_symbol, bool(q.head_is_left)) for q in self.g.binary(x, y)]
            self.b[k] = r
        return r

    def unary(self, x):
        r = self.u.get(x)
        if r is None:
            r = [(q.cat, q.op_string, q.op_symbol) for q in self.g.unary(x)]
            self.u[x] = r
        return r


def _push2(lst, s):
    """keep the two largest distinct scores"""
    if s in lst:
        return
    lst.append(s)
    lst.sort(reverse=True)
    del lst[2:]


def chart(n, leaf_scores, memo, roots, dep, unary_penalty, head_left):
    """exhaustive dynamic program for a head-uniform grammar.
    leaf_scores[i]: dict Category -> tag score of the admitted tags of word i.
    Returns dict(best=float|None, second=float|None, feasible=bool, cells=...)"""
    cells = {}

    def close_unary(cell, allow):
        if not allow:
            return
        frontier = list(cell.items())
        while frontier:
            new = []
            for c, scores in frontier:
                for (r, _, _) in memo.unary(c):
                    tgt = cell.setdefault(r, [])
                    before = list(tgt)
                    for s in scores:
                        _push2(tgt, s - unary_penalty)
                    if tgt != before:
                        new.append((r, list(tgt)))
            frontier = new
    for i in range(n):
        cell = {c: [float(s)] for c, s in leaf_scores[i].items()}
        close_unary(cell, True)
        cells[(i, i + 1)] = cell
    for ln in range(2, n + 1):
        for i in range(0, n - ln + 1):
            j = i + ln
            cell = {}
            for k in range(i + 1, j):
                hl = i if head_left else k - 1
                hr = k if head_left else j - 1
                d = float(dep[hr][hl + 1]) if head_left else float(dep[hl][hr + 1])
                left, right = cells[(i, k)], cells[(k, j)]
                for x, sxs in left.items():
                    for y, sys_ in right.items():
                        res = memo.binary(x, y)
                        if not res:
                            continue
                        for (r, _, _, _) in res:
                            tgt = cell.setdefault(r, [])
                            for sx in sxs:
                                for sy in sys_:
                                    _push2(tgt, sx + sy + d)
            close_unary(cell, ln != n)
            cells[(i, j)] = cell
    h = 0 if head_left else n - 1
    tops = []
    for c, scores in cells[(0, n)].items():
        if c in roots:
            for s in scores:
                _push2(tops, s + float(dep[h][0]))
    return {'best': tops[0] if tops else None, 'second': tops[1] if len(tops) > 1 else None,
            'feasible': bool(tops)}


class TooMany(Exception):
    pass


def enumerate_derivations(n, leaf_scores, memo, roots, dep, unary_penalty, head_left, cap=20000):
    """all derivations (with labels) -> list of (score, tree_repr); raises TooMany beyond cap.
    tree_repr: ('L', cat, i) | ('U', cat, label, symbol, child) | ('B', cat, label, symbol, left, right)"""
    memo_span = {}
    total = [0]

    def span(i, j):
        if (i, j) in memo_span:
            return memo_span[(i, j)]
        items = []
        if j == i + 1:
            for c, s in leaf_scores[i].items():
                items.append((c, float(s), ('L', c, i)))
        else:
            for k in range(i + 1, j):
                hl = i if head_left else k - 1
                hr = k if head_left else j - 1
                d = float(dep[hr][hl + 1]) if head_left else float(dep[hl][hr + 1])
                for (x, sx, tx) in span(i, k):
                    for (y, sy, ty) in span(k, j):
                        for (r, lab, sym, _) in memo.binary(x, y):
                            items.append((r, sx + sy + d, ('B', r, lab, sym, tx, ty)))
                            if len(items) > cap:
                                raise TooMany()
        if j - i == 1 or j - i != n or n == 1:
            frontier = list(items)
            while frontier:
                new = []
                for (c, s, t) in frontier:
                    for (r, lab, sym) in memo.unary(c):
                        new.append((r, s - unary_penalty, ('U', r, lab, sym, t)))
                items.extend(new)
                if len(items) > cap:
                    raise TooMany()
                frontier = new
        total[0] += len(items)
        if total[0] > 20 * cap:
            raise TooMany()
        memo_span[(i, j)] = items
        return items
    h = 0 if head_left else n - 1
    out = [(s + float(dep[h][0]), t) for (c, s, t) in span(0, n) if c in roots]
    out.sort(key=lambda p: -p[0])
    return out
