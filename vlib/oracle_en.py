"""M-en: schema table of the English combinators, stated over category models.

justify(x, y, res, label, symbol) -> None if the schema named by (label, symbol) licenses
`res` for the 'nb'-erased inputs x, y; otherwise a short reason string.
expected(x, y) -> list of (label, symbol, result) that MUST be produced because a schema's
premises hold with identical matched parts.
"""
from vlib.model_cat import A, F, blind, feats, is_mod, is_punct_en, is_type_raised, leaves
from vlib.oracle_unify import compat1

FWD = '/|'
BWD = '\\|'

COMMA, SEMI, CONJ = A(','), A(';'), A('conj')
NP_NP = F(A('NP'), '\\', A('NP'))
S_NP = F(A('S'), '\\', A('NP'))
SPECIAL_BA = (A('S', 'dcl'), F(A('S', 'em'), '\\', A('S', 'em')))
TYPE_CHANGE = {
    (COMMA, F(A('S', 'ng'), '\\', A('NP'))): F(S_NP, '\\', S_NP),
    (COMMA, F(A('S', 'pss'), '\\', A('NP'))): F(S_NP, '\\', S_NP),
    (COMMA, F(A('S', 'dcl'), '/', A('S', 'dcl'))): F(S_NP, '/', S_NP),
}

LABELS = [('fa', '>'), ('ba', '<'), ('fc', '>B'), ('bx', '<B'), ('gfc', '>B'), ('gbx', '<B'),
          ('conj', '<Φ>'), ('lp', '<lp>'), ('rp', '<rp>'), ('lp', '<*>')]


def match(b1, b2):
    """consumed argument matches structurally with compatible features"""
    if blind(b1) != blind(b2):
        return False
    return all(compat1(p[2], q[2]) for p, q in zip(leaves(b1), leaves(b2)))


def derived(res, src, pool):
    """res is src with at most its variable features replaced by features from the inputs"""
    if blind(res) != blind(src):
        return False
    for r, s in zip(leaves(res), leaves(src)):
        if r[2] == s[2]:
            continue
        if s[2] == 'X' and r[2] in pool:
            continue
        return False
    return True


def bare(m):
    return m in (A('N'), A('NP'))


def fun(m, slashes):
    return m[0] == 'f' and m[2] in slashes


SYMBOLS_OF = {}     # label -> the symbols under which this table knows it


def justify(x, y, res, label, sym):
    """why the result is NOT justified by the schema its LABEL names (None = justified).  The statement speaks of
    labels only: under whatever symbol a label is written, it is judged by every schema of that label"""
    if not SYMBOLS_OF:
        for lab_, sym_ in LABELS:
            SYMBOLS_OF.setdefault(lab_, []).append(sym_)
    if sym not in SYMBOLS_OF.get(label, [sym]):
        whys = [_justify(x, y, res, label, s2) for s2 in SYMBOLS_OF[label]]
        return None if any(w is None for w in whys) else whys[0]
    if label == 'lp':
        whys = [_justify(x, y, res, label, s2) for s2 in SYMBOLS_OF['lp']]
        if any(w is None for w in whys):
            return None
    return _justify(x, y, res, label, sym)


def _justify(x, y, res, label, sym):
    pool = feats(x) | feats(y)
    k = (label, sym)
    if k == ('fa', '>'):
        if not fun(x, FWD):
            return 'left input is not a forward functor'
        a, b = x[1], x[3]
        if not match(b, y):
            return 'argument does not match the right input'
        if is_mod(x):
            return None if res == y else 'modifier must return the other category unchanged'
        return None if derived(res, a, pool) else 'result is not the functor result with features from the inputs'
    if k == ('ba', '<'):
        if (x, y) == SPECIAL_BA:
            return None if res == x else 'listed S[dcl] S[em]\\S[em] exception must return S[dcl]'
        if not fun(y, BWD):
            return 'right input is not a backward functor'
        a, b = y[1], y[3]
        if not match(b, x):
            return 'argument does not match the left input'
        if is_mod(y):
            return None if res == x else 'modifier must return the other category unchanged'
        return None if derived(res, a, pool) else 'result is not the functor result with features from the inputs'
    if k == ('fc', '>B'):
        if not (fun(x, FWD) and fun(y, FWD)):
            return 'inputs are not two forward functors'
        a, b, b2, c = x[1], x[3], y[1], y[3]
        if not match(b, b2):
            return 'composed-over categories do not match'
        if is_mod(x):
            return None if res == y else 'modifier must return the other category unchanged'
        if not (res[0] == 'f' and res[2] == '/'):
            return 'result is not a forward functor'
        return None if derived(res[1], a, pool) and derived(res[3], c, pool) else 'result is not A/C'
    if k == ('bx', '<B'):
        if not (fun(x, FWD) and fun(y, BWD)):
            return 'inputs are not forward functor + backward functor'
        b, c, a, b2 = x[1], x[3], y[1], y[3]
        if not match(b, b2):
            return 'composed-over categories do not match'
        if bare(b) and bare(b2):
            return 'composes over a bare N or NP'
        if is_mod(y):
            return None if res == x else 'modifier must return the other category unchanged'
        if not (res[0] == 'f' and res[2] == '/'):
            return 'result is not a forward functor'
        return None if derived(res[1], a, pool) and derived(res[3], c, pool) else 'result is not A/C'
    if k == ('gfc', '>B'):
        if not (fun(x, FWD) and y[0] == 'f' and fun(y[1], FWD)):
            return 'inputs are not A/B and (B/C)|D'
        a, b = x[1], x[3]
        b2, c, d = y[1][1], y[1][3], y[3]
        if not match(b, b2):
            return 'composed-over categories do not match'
        if is_mod(x):
            return None if res == y else 'modifier must return the other category unchanged'
        if not (res[0] == 'f' and res[2] == y[2] and res[1][0] == 'f' and res[1][2] == '/'):
            return 'result is not (A/C) with the outer slash of the right input'
        ok = derived(res[1][1], a, pool) and derived(res[1][3], c, pool) and derived(res[3], d, pool)
        return None if ok else 'result parts are not A, C, D'
    if k == ('gbx', '<B'):
        if not (x[0] == 'f' and fun(x[1], FWD) and fun(y, BWD)):
            return 'inputs are not (B/C)|D and a backward functor A\\B'
        b, c, d = x[1][1], x[1][3], x[3]
        a, b2 = y[1], y[3]
        if not match(b, b2):
            return 'composed-over categories do not match'
        if bare(b) and bare(b2):
            return 'composes over a bare N or NP'
        if is_mod(y):
            return None if res == x else 'modifier must return the other category unchanged'
        if not (res[0] == 'f' and res[2] == x[2] and res[1][0] == 'f' and res[1][2] == '/'):
            return 'result is not (A/C) with the outer slash of the left input'
        ok = derived(res[1][1], a, pool) and derived(res[1][3], c, pool) and derived(res[3], d, pool)
        return None if ok else 'result parts are not A, C, D'
    if k == ('conj', '<Φ>'):
        if x == CONJ and y == NP_NP and res == y:
            return None
        if x in (COMMA, SEMI, CONJ) and not is_punct_en(y) and not is_type_raised(y) and res == F(y, '\\', y):
            return None
        return 'conjunction premises do not hold'
    if k == ('lp', '<lp>'):
        if is_punct_en(x) and res == y:
            return None
        if x in (A('LQU'), A('LRB')) and res == F(y, '\\', y):
            return None
        return 'left punctuation premises do not hold'
    if k == ('rp', '<rp>'):
        return None if is_punct_en(y) and res == x else 'right punctuation premises do not hold'
    if k == ('lp', '<*>'):
        return None if TYPE_CHANGE.get((x, y)) == res else 'not a listed type-changing pair'
    return f'unknown label/symbol {k}'


def expected(x, y):
    """results demanded by 'a schema whose premises hold with identical matched parts always
    yields its result' (x, y already 'nb'-erased)"""
    out = []
    if fun(x, FWD) and x[3] == y:
        out.append(('fa', '>', y if is_mod(x) else x[1]))
    if (x, y) == SPECIAL_BA:
        out.append(('ba', '<', x))
    elif fun(y, BWD) and y[3] == x:
        out.append(('ba', '<', x if is_mod(y) else y[1]))
    if fun(x, FWD) and fun(y, FWD) and x[3] == y[1]:
        out.append(('fc', '>B', y if is_mod(x) else F(x[1], '/', y[3])))
    if fun(x, FWD) and fun(y, BWD) and x[1] == y[3] and not bare(x[1]):
        out.append(('bx', '<B', x if is_mod(y) else F(y[1], '/', x[3])))
    if fun(x, FWD) and y[0] == 'f' and fun(y[1], FWD) and x[3] == y[1][1]:
        out.append(('gfc', '>B', y if is_mod(x) else F(F(x[1], '/', y[1][3]), y[2], y[3])))
    if x[0] == 'f' and fun(x[1], FWD) and fun(y, BWD) and x[1][1] == y[3] and not bare(y[3]):
        out.append(('gbx', '<B', x if is_mod(y) else F(F(y[1], '/', x[1][3]), x[2], x[3])))
    if x in (COMMA, SEMI, CONJ) and not is_punct_en(y) and not is_type_raised(y) and blind(y) != blind(NP_NP):
        out.append(('conj', '<Φ>', F(y, '\\', y)))
    if x == CONJ and y == NP_NP:
        out.append(('conj', '<Φ>', y))
    if is_punct_en(x):
        out.append(('lp', '<lp>', y))
    if is_punct_en(y):
        out.append(('rp', '<rp>', x))
    if x in (A('LQU'), A('LRB')):
        out.append(('lp', '<lp>', F(y, '\\', y)))
    if (x, y) in TYPE_CHANGE:
        out.append(('lp', '<*>', TYPE_CHANGE[(x, y)]))
    return out


def premises_hold(x, y):
    """does at least one schema's shape premise hold (used for the non-trivial count)"""
    return bool(expected(x, y)) or (fun(x, FWD) and match(x[3], y)) or (fun(y, BWD) and match(y[3], x))
