"""G-pair: category pairs aimed at rule patterns (instantiation + perturbation), tape-driven."""
from vlib import gen_cat
from vlib.model_cat import A, F


def paths(m, pre=()):
    out = [pre]
    if m[0] == 'f':
        out += paths(m[1], pre + (1,))
        out += paths(m[3], pre + (3,))
    return out


def get_at(m, path):
    for p in path:
        m = m[p]
    return m


def replace_at(m, path, new):
    if not path:
        return new
    if path[0] == 1:
        return F(replace_at(m[1], path[1:], new), m[2], m[3])
    return F(m[1], m[2], replace_at(m[3], path[1:], new))


def t_new_feature(t, atom, system):
    if atom[1] in gen_cat.EN_PUNCT:
        return atom
    if system == 'en':
        choices = [f for f in gen_cat.EN_FEATS if f != atom[2]]
        # boost the interesting ones: X, nb, none, and a clashing concrete value
        f = t.pick(['X', 'nb', None, 'dcl', 'b'] + choices)
        if f == atom[2]:
            f = choices[0]
        return A(atom[1], f)
    layout = gen_cat.JA_S if atom[1] == 'S' else gen_cat.JA_NP
    i = t.below(3)
    vs = [v for v in layout[i][1] if v != atom[2][i][1]]
    v = t.pick(vs)
    return A(atom[1], tuple((k, v if j == i else old) for j, (k, old) in enumerate(atom[2])))


def t_perturb(t, m, system):
    """one perturbation of m -> (m', kind)"""
    ps = paths(m)
    kind = t.pick(['feat', 'feat', 'slash', 'sub', 'bar'])
    if kind == 'feat':
        leaf_paths = [p for p in ps if get_at(m, p)[0] == 'a']
        p = t.pick(leaf_paths)
        return replace_at(m, p, t_new_feature(t, get_at(m, p), system)), 'feat'
    fun_paths = [p for p in ps if get_at(m, p)[0] == 'f']
    if kind in ('slash', 'bar') and fun_paths:
        p = t.pick(fun_paths)
        node = get_at(m, p)
        if kind == 'bar':
            s = '|'
            if node[2] == '|':
                s = t.pick(['/', '\\'])
        else:
            s = '\\' if node[2] == '/' else '/'
        return replace_at(m, p, F(node[1], s, node[3])), kind
    p = t.pick(ps)
    new = gen_cat.t_cat(t, system, depth=1, bar=False)
    return replace_at(m, p, new), 'sub'


def instantiate(p, env, slashes=None):
    """exact instantiation of pattern model p; '|' in a pattern is filled from `slashes` (list, consumed)"""
    if p[0] == 'a':
        return env[p[1]]
    s = p[2]
    if s == '|':
        s = slashes.pop(0) if slashes else '/'
    return F(instantiate(p[1], env, slashes), s, instantiate(p[3], env, slashes))


def t_env(t, names, system, force_modifier=False, depths=(0, 0, 1, 1, 2, 2, 3), bar_inputs=False):
    env = {}
    for n in names:
        env[n] = gen_cat.t_cat(t, system, depth=t.pick(list(depths)), bar=bar_inputs and t.chance(40),
                               punct=False)
    if force_modifier and 'a' in env and 'b' in env:
        env['a'] = env['b']
    return env


def t_instance(t, px, py, system, n_pert, names):
    """(x, y, env, kinds): instantiate the pattern pair with identical matched parts, then apply
    n_pert perturbations"""
    force_mod = t.chance(56)
    env = t_env(t, names, system, force_modifier=force_mod, bar_inputs=True)
    sl = [t.pick(['/', '\\']) for _ in range(8)]
    x = instantiate(px, env, sl)
    y = instantiate(py, env, sl)
    kinds = []
    # modifier-shaped inputs (Z|Z) on either side: the rules' modifier shortcut looks at one particular side
    if y[0] == 'f' and t.chance(36):
        y = F(y[1], y[2], y[1])
        kinds.append('y-made-modifier')
    if x[0] == 'f' and t.chance(20):
        x = F(x[1], x[2], x[1])
        kinds.append('x-made-modifier')
    for _ in range(n_pert):
        if t.chance(128):
            x, k = t_perturb(t, x, system)
            kinds.append('x:' + k)
        else:
            y, k = t_perturb(t, y, system)
            kinds.append('y:' + k)
    return x, y, env, kinds


# ------------------------------------------------------------------ random bounded patterns
def t_pattern_pair(t):
    """random pattern pair: variables a..f, each at most once per side, shared across sides"""
    def shape(depth):
        if depth <= 0 or not t.chance(140):
            return None
        return (shape(depth - 1), t.pick(['/', '\\', '|']), shape(depth - 1))

    def fill(sh, names):
        if sh is None:
            return A(names.pop(0))
        return F(fill(sh[0], names), sh[1], fill(sh[2], names))

    def count(sh):
        return 1 if sh is None else count(sh[0]) + count(sh[2])
    sx, sy = shape(3), shape(3)
    nx, ny = count(sx), count(sy)
    letters = list('abcdefghij')
    xn = letters[:nx]
    # y side: mostly shared names, permuted by the tape
    pool = list(xn) + letters[nx:nx + ny]
    yn = []
    for _ in range(ny):
        k = t.below(len(pool))
        yn.append(pool.pop(k))
    return fill(sx, list(xn)), fill(sy, list(yn))
