"""Shipped inventories (category strings of depccg/models/*.jsonnet), read from the working tree."""
import functools
import os

from vlib import env, jsonnet_lite

MODELS = os.path.join(env.REPO, 'depccg', 'models')


def mpath(name):
    return os.path.join(MODELS, name)


CONFIG = {'en': 'config_en.jsonnet', 'ja': 'config_ja.jsonnet', 'en_rebank': 'config_rebank.jsonnet'}


def _table(which, field, own_file):
    """a table of a configuration, read the way the library reads it: as a field of the configuration file (which
    imports or inlines it); the table's own file is only a fallback"""
    try:
        return jsonnet_lite.get_field(mpath(CONFIG[which]), field)
    except jsonnet_lite.JsonnetError:
        if own_file and os.path.exists(mpath(own_file)):
            return jsonnet_lite.get_field(mpath(own_file), field)
        raise


@functools.lru_cache(None)
def targets(which):          # 'en' | 'en_rebank' | 'ja'
    return list(_table(which, 'targets', f'targets.{which}.jsonnet'))


@functools.lru_cache(None)
def seen_rules(which):
    return [tuple(p) for p in _table(which, 'seen_rules', f'seen_rules.{which}.jsonnet')]


@functools.lru_cache(None)
def unary_rules(which):      # 'en' | 'ja' | 'en_rebank'
    return [tuple(p) for p in _table(which, 'unary_rules', None if which == 'en_rebank' else f'unary_rules.{which}.jsonnet')]


@functools.lru_cache(None)
def cat_dict_en():
    return _table('en', 'cat_dict', 'cat_dict.en.jsonnet')


@functools.lru_cache(None)
def rebank_binary_rules():
    try:
        return [tuple(p) for p in jsonnet_lite.get_field(mpath('config_rebank.jsonnet'), 'binary_rules')]
    except jsonnet_lite.JsonnetError:
        return []           # (a field no code of the library reads)


@functools.lru_cache(None)
def all_category_strings(include_cat_dict=True):
    """(table name, string) for every category string occurrence of the shipped tables"""
    out = []
    for w in ('en', 'en_rebank', 'ja'):
        out += [(f'targets.{w}', s) for s in targets(w)]
        for x, y in seen_rules(w):
            out += [(f'seen_rules.{w}', x), (f'seen_rules.{w}', y)]
        for x, y in unary_rules(w):
            out += [(f'unary_rules.{w}', x), (f'unary_rules.{w}', y)]
    for r in rebank_binary_rules():
        out += [('config_rebank.binary_rules', s) for s in r[:3]]
    if include_cat_dict:
        for word, cats in cat_dict_en().items():
            out += [('cat_dict.en', s) for s in cats]
    return out


@functools.lru_cache(None)
def distinct_strings(system):
    """distinct category strings of one feature system: 'en' (en + rebank tables) or 'ja'"""
    seen = {}
    for table, s in all_category_strings(True):
        is_ja = table.endswith('.ja')
        if (system == 'ja') == is_ja:
            seen.setdefault(s, None)
    return list(seen)


@functools.lru_cache(None)
def test_category_strings():
    out = []
    for fn in ('cats.txt', 'cats.ja.txt'):
        p = os.path.join(env.REPO, 'tests', fn)
        if os.path.exists(p):
            out += [l.strip() for l in open(p, encoding='utf-8') if l.strip()]
    return out
