"""Shipped inventories (category strings of depccg/models/*.jsonnet), read from the working tree."""
import functools
import os

from vlib import env, jsonnet_lite

MODELS = os.path.join(env.REPO, 'depccg', 'models')


def mpath(name):
    return os.path.join(MODELS, name)


@functools.lru_cache(None)
def targets(which):          # 'en' | 'en_rebank' | 'ja'
    return list(jsonnet_lite.get_field(mpath(f'targets.{which}.jsonnet'), 'targets'))


@functools.lru_cache(None)
def seen_rules(which):
    return [tuple(p) for p in jsonnet_lite.get_field(mpath(f'seen_rules.{which}.jsonnet'), 'seen_rules')]


@functools.lru_cache(None)
def unary_rules(which):      # 'en' | 'ja' | 'en_rebank'
    if which == 'en_rebank':
        return [tuple(p) for p in jsonnet_lite.get_field(mpath('config_rebank.jsonnet'), 'unary_rules')]
    return [tuple(p) for p in jsonnet_lite.get_field(mpath(f'unary_rules.{which}.jsonnet'), 'unary_rules')]


@functools.lru_cache(None)
def cat_dict_en():
    return jsonnet_lite.get_field(mpath('cat_dict.en.jsonnet'), 'cat_dict')


@functools.lru_cache(None)
def rebank_binary_rules():
    return [tuple(p) for p in jsonnet_lite.get_field(mpath('config_rebank.jsonnet'), 'binary_rules')]


@functools.lru_cache(None)
def all_category_strings(include_cat_dict=True):
    """(table name, string) for every category string occurrence of the shipped tables"""
    out = []
    for w in ('en', 'en_rebank', 'ja'):
        out += [(f'targets.{w}', s) for s in targets(w)]
        for x, y in seen_rules(w):
            out += [(f'seen_rules.{w}', x), (f'seen_rules.{w}', y)]
        for x, y in unary_rules(w):
            out += [(f'unary_rules.{w}', x), (f'unary_rules.{w}', y)]
    for r in rebank_binary_rules():
        out += [('config_rebank.binary_rules', s) for s in r[:3]]
    if include_cat_dict:
        for word, cats in cat_dict_en().items():
            out += [('cat_dict.en', s) for s in cats]
    return out


@functools.lru_cache(None)
def distinct_strings(system):
    """distinct category strings of one feature system: 'en' (en + rebank tables) or 'ja'"""
    seen = {}
    for table, s in all_category_strings(True):
        is_ja = table.endswith('.ja')
        if (system == 'ja') == is_ja:
            seen.setdefault(s, None)
    return list(seen)


@functools.lru_cache(None)
def test_category_strings():
    out = []
    for fn in ('cats.txt', 'cats.ja.txt'):
        p = os.path.join(env.REPO, 'tests', fn)
        if os.path.exists(p):
            out += [l.strip() for l in open(p, encoding='utf-8') if l.strip()]
    return out
