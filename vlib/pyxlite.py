"""pyxlite: run depccg/parsing.pyx + depccg/parsing.h from the working tree without Cython.

* C++ side: a generated extern-"C" shim #includes the real header and is compiled with g++
  into a scratch directory on every check run; struct field accessors are generated from
  the `cdef struct` declarations found in the .pyx's own `cdef extern` blocks.
* Python side: the .pyx is rewritten into a plain Python module registered as
  `depccg._parsing`, so the unmodified depccg/parsing.py drives it (DESIGN.md 3.2).

Cython constructs recognised (anything else -> BuildError -> exit 2, never a VIOLATION):

  construct                                   emulation
  ------------------------------------------  -----------------------------------------------
  cimport lines, `cdef extern from` blocks     dropped (mined for struct fields / signatures)
  cdef <struct> x                              heap object with typed field accessors
  cdef pair[unsigned,unsigned] x               two unsigned fields with C wrap-around
  cdef unordered_set[unsigned] x / cache_type  C++ containers behind the shim
  cdef list x / typed ndarray buffer           Cython's 'must be list or None' / buffer checks
  cdef scalar / object declarations            erased
  cdef RET f(ARGS) [except -1|noexcept]:       def f(...), called back from C through ctypes
  <void*>x, <object>x, <float*>a.data, &x      registry / identity / data pointer
  NULL, ptr.field, ptr[0], vec.push_back       proxies; NULL dereference raises
  std::string fields                           bytes
  def f(list a, object b, ...)                 argument type checks
"""
import atexit
import ctypes
import os
import math
import re
import shutil
import subprocess
import sys
import tempfile
import types


class BuildError(Exception):
    pass


# --------------------------------------------------------------------------- extern blocks
_FIELD = re.compile(r'(bint|bool|unsigned int|unsigned|float|double|size_t|long|int|string|cell_item \*)\s*(\*?\w+)$')


def strip_comments(src):
    """remove # comments (outside string literals, triple-quoted ones included) so that no later step has to know
    where a comment may stand"""
    out = []
    triple = None
    for ln in src.split('\n'):
        res = []
        i = 0
        quote = None
        while i < len(ln):
            ch = ln[i]
            if triple:
                if ln.startswith(triple, i):
                    res.append(triple)
                    i += 3
                    triple = None
                    continue
                res.append(ch)
                i += 1
                continue
            if quote:
                res.append(ch)
                if ch == '\\' and i + 1 < len(ln):
                    res.append(ln[i + 1])
                    i += 2
                    continue
                if ch == quote:
                    quote = None
                i += 1
                continue
            if ln.startswith('"""', i) or ln.startswith("'''", i):
                triple = ln[i:i + 3]
                res.append(triple)
                i += 3
                continue
            if ch in '\'"':
                quote = ch
                res.append(ch)
                i += 1
                continue
            if ch == '#':
                break
            res.append(ch)
            i += 1
        out.append(''.join(res).rstrip() if not triple else ''.join(res))
    return '\n'.join(out)


def _join_open_brackets(lines):
    """a declaration wrapped over several lines inside ( ) or [ ] is one declaration"""
    out = []
    buf = ''
    depth = 0
    for ln in lines:
        if depth > 0:
            buf += ' ' + ln.strip()
        else:
            buf = ln
        depth = buf.count('(') + buf.count('[') - buf.count(')') - buf.count(']')
        if depth <= 0:
            out.append(buf)
            buf = ''
            depth = 0
    if buf:
        out.append(buf)
    return out


def parse_extern(src):
    lines = _join_open_brackets(src.split('\n'))
    out = []
    structs = {}
    i = 0
    while i < len(lines):
        ln = lines[i]
        if re.match(r'^cdef extern from ', ln):
            i += 1
            cur = None
            while i < len(lines) and (lines[i].startswith(' ') or lines[i].strip() == ''):
                s = lines[i].strip()
                m = re.match(r'cdef struct (\w+):', s)
                if m:
                    cur = m.group(1)
                    structs[cur] = []
                elif cur and _FIELD.match(s):
                    t, n = _FIELD.match(s).groups()
                    if n.startswith('*'):
                        t = t + ' *'
                        n = n[1:]
                    structs[cur].append((t.strip(), n))
                elif s.startswith('cdef unsigned parse_sentence'):
                    while not lines[i].rstrip().endswith('except +'):
                        i += 1
                        if i >= len(lines):
                            raise BuildError('parse_sentence declaration without `except +`')
                    cur = None
                elif s == '' or s.startswith('#') or re.match(r'float score\(\)', s):
                    pass
                elif s.startswith('ctypedef') or s.startswith('cdef unsigned UINT_MAX'):
                    cur = None
                else:
                    raise BuildError('unknown declaration in cdef extern block: ' + s)
                i += 1
            continue
        out.append(ln)
        i += 1
    for need in ('cell_item', 'combinator_result', 'config'):
        if need not in structs:
            raise BuildError(f'struct {need} not declared in the .pyx extern blocks')
    return structs, '\n'.join(out)


def gen_shim(structs, have_hook):
    cpp = ['#include <climits>', '#include <cstdlib>', '#include <cstring>', '#include "depccg/parsing.h"',
           'using namespace parsing;', 'extern "C" {']
    for sname, fields in structs.items():
        if sname == 'cell_item':        # never allocated by the pyx (items belong to the chart); it may lack a default ctor
            cpp.append(f'void* {sname}_new() {{ return nullptr; }}')
            cpp.append(f'void {sname}_del(void*p) {{ }}')
        else:
            cpp.append(f'void* {sname}_new() {{ return new {sname}(); }}')
            cpp.append(f'void {sname}_del(void*p) {{ delete ({sname}*)p; }}')
        for t, n in fields:
            if t == 'string':
                cpp.append(f'const char* {sname}_get_{n}(void*p, unsigned*len) {{ auto&s=(({sname}*)p)->{n}; *len=s.size(); return s.data(); }}')
                cpp.append(f'void {sname}_set_{n}(void*p, const char*b, unsigned len) {{ (({sname}*)p)->{n}.assign(b,len); }}')
            elif t.endswith('*'):
                cpp.append(f'void* {sname}_get_{n}(void*p) {{ return (void*)(({sname}*)p)->{n}; }}')
            else:
                ct = {'bint': 'int', 'bool': 'int', 'unsigned': 'unsigned', 'unsigned int': 'unsigned', 'float': 'float', 'int': 'int',
                      'double': 'double', 'size_t': 'unsigned long', 'long': 'long'}[t]
                cpp.append(f'{ct} {sname}_get_{n}(void*p) {{ return ({ct})(({sname}*)p)->{n}; }}')
                cpp.append(f'void {sname}_set_{n}(void*p, {ct} v) {{ (({sname}*)p)->{n} = v; }}')
    cpp.append('''
float cell_item_score(void*p){ return ((cell_item*)p)->score(); }
void* cache_new(){ return new cache_type(); }
void cache_del(void*c){ delete (cache_type*)c; }
unsigned cache_size(void*c){ return ((cache_type*)c)->size(); }
void cache_clear(void*c){ ((cache_type*)c)->clear(); }
/* number of results cached under the key, -1 if the key is missing */
long cache_veclen(void*c, unsigned a, unsigned b){ auto&m=*(cache_type*)c; auto it=m.find(std::make_pair(a,b)); return it==m.end() ? -1 : (long)it->second.size(); }
/* bounds-checked cache[0][key][idx]; 0 ok, 1 missing key, 2 index out of range */
int cache_lookup(void*c, unsigned a, unsigned b, unsigned idx, void*out){
  cache_type*cc=(cache_type*)c; auto it=cc->find(std::make_pair(a,b));
  if(it==cc->end()) return 1; if(idx>=it->second.size()) return 2;
  *(combinator_result*)out = it->second[idx]; return 0; }
void vec_push_back(void*v, void*r){ ((std::vector<combinator_result>*)v)->push_back(*(combinator_result*)r); }
void* uset_new(){ return new std::unordered_set<unsigned>(); }
void uset_del(void*s){ delete (std::unordered_set<unsigned>*)s; }
void uset_insert(void*s, unsigned v){ ((std::unordered_set<unsigned>*)s)->insert(v); }
static char g_err[512];
const char* last_error(){ return g_err; }
int call_parse_sentence(float*tag,float*dep,unsigned length,void*roots,void*bcb,void*ucb,finalizer_type fin,scaffold_type sc,void*fargs,void*cache,void*cfg,unsigned*status){
  try { *status = parse_sentence(tag,dep,length,*(std::unordered_set<unsigned>*)roots,bcb,ucb,fin,sc,fargs,(cache_type*)cache,(config*)cfg); return 0; }
  catch(std::exception&e){ strncpy(g_err,e.what(),511); g_err[511]=0; return 1; } catch(...){ strcpy(g_err,"unknown C++ exception"); return 1; } }
''')
    if have_hook:
        cpp.append('typedef void (*pop_cb)(const cell_item*);\n'
                   'void set_pop_hook(pop_cb h){ parsing::verif_pop_hook = (parsing::verif_pop_hook_type)h; }')
    cpp.append('}')
    return '\n'.join(cpp)


# --------------------------------------------------------------------------- runtime
class Runtime:
    def __init__(self, lib, structs, sigs, have_hook):
        self.lib = lib
        self.structs = structs
        self.sigs = sigs
        self.have_hook = have_hook
        self.registry = {}
        self.pending_exc = None
        self.unraisable = []        # exceptions swallowed by `noexcept` functions
        self.harness_faults = []    # exceptions raised by the emulation itself (a proxy lacks an operation)
        self.faults = []            # undefined behaviour surfaced by the shim
        self._hook_ref = None
        L = lib
        for s, fields in structs.items():
            getattr(L, f'{s}_new').restype = ctypes.c_void_p
            getattr(L, f'{s}_del').argtypes = [ctypes.c_void_p]
            for t, n in fields:
                g = getattr(L, f'{s}_get_{n}')
                if t == 'string':
                    g.restype = ctypes.POINTER(ctypes.c_char)
                    g.argtypes = [ctypes.c_void_p, ctypes.POINTER(ctypes.c_uint)]
                    getattr(L, f'{s}_set_{n}').argtypes = [ctypes.c_void_p, ctypes.c_char_p, ctypes.c_uint]
                elif t.endswith('*'):
                    g.restype = ctypes.c_void_p
                    g.argtypes = [ctypes.c_void_p]
                else:
                    ct = {'bint': ctypes.c_int, 'bool': ctypes.c_int, 'unsigned': ctypes.c_uint, 'unsigned int': ctypes.c_uint,
                          'float': ctypes.c_float, 'int': ctypes.c_int, 'double': ctypes.c_double,
                          'size_t': ctypes.c_ulong, 'long': ctypes.c_long}[t]
                    g.restype = ct
                    g.argtypes = [ctypes.c_void_p]
                    getattr(L, f'{s}_set_{n}').argtypes = [ctypes.c_void_p, ct]
        L.cell_item_score.restype = ctypes.c_float
        L.cell_item_score.argtypes = [ctypes.c_void_p]
        for n in ('cache_new', 'uset_new'):
            getattr(L, n).restype = ctypes.c_void_p
        for n in ('cache_del', 'uset_del'):
            getattr(L, n).argtypes = [ctypes.c_void_p]
        L.cache_size.argtypes = [ctypes.c_void_p]
        L.cache_size.restype = ctypes.c_uint
        L.cache_clear.argtypes = [ctypes.c_void_p]
        L.cache_clear.restype = None
        L.cache_veclen.argtypes = [ctypes.c_void_p, ctypes.c_uint, ctypes.c_uint]
        L.cache_veclen.restype = ctypes.c_long
        L.cache_lookup.argtypes = [ctypes.c_void_p, ctypes.c_uint, ctypes.c_uint, ctypes.c_uint, ctypes.c_void_p]
        L.vec_push_back.argtypes = [ctypes.c_void_p, ctypes.c_void_p]
        L.uset_insert.argtypes = [ctypes.c_void_p, ctypes.c_uint]
        L.last_error.restype = ctypes.c_char_p
        self.SCAFFOLD = ctypes.CFUNCTYPE(ctypes.c_int, ctypes.c_void_p, ctypes.c_uint, ctypes.c_uint, ctypes.c_void_p)
        self.FINALIZER = ctypes.CFUNCTYPE(ctypes.c_uint, ctypes.c_void_p, ctypes.POINTER(ctypes.c_uint),
                                          ctypes.c_void_p, ctypes.c_void_p)
        self.POPHOOK = ctypes.CFUNCTYPE(None, ctypes.c_void_p)
        L.call_parse_sentence.argtypes = [
            ctypes.c_void_p, ctypes.c_void_p, ctypes.c_uint, ctypes.c_void_p, ctypes.c_void_p, ctypes.c_void_p,
            self.FINALIZER, self.SCAFFOLD, ctypes.c_void_p, ctypes.c_void_p, ctypes.c_void_p,
            ctypes.POINTER(ctypes.c_uint)]
        if have_hook:
            L.set_pop_hook.argtypes = [self.POPHOOK]
        rt = self

        class Null:
            def __eq__(s, o):
                return o is s or (isinstance(o, Ptr) and not o._p)

            def __ne__(s, o):
                return not s.__eq__(o)

            def __bool__(s):
                return False

            __hash__ = None
        self.NULL = Null()

        class Ptr:
            def __init__(s, p):
                object.__setattr__(s, '_p', p or 0)

            def __eq__(s, o):
                return (o is rt.NULL and not s._p) or (isinstance(o, Ptr) and o._p == s._p)

            def __bool__(s):            # `if p:` / `if not p:` test a pointer against NULL
                return bool(s._p)

            def __ne__(s, o):
                return not s.__eq__(o)

            __hash__ = None

        class Struct(Ptr):
            def __init__(s, name, p='new', own=None):
                object.__setattr__(s, '_f', dict((n, t) for t, n in structs[name]))
                object.__setattr__(s, '_n', name)
                object.__setattr__(s, '_own', False)
                if p == 'new':
                    p = getattr(L, f'{name}_new')()
                    own = True
                Ptr.__init__(s, p)
                object.__setattr__(s, '_own', bool(own))

            def __del__(s):
                if s._own:
                    getattr(L, f'{s._n}_del')(s._p)

            def __getattr__(s, k):
                f = object.__getattribute__(s, '_f')
                if k not in f:
                    if s._n == 'cell_item' and k == 'score':
                        if not s._p:
                            raise RuntimeError('NULL pointer dereference in translated pyx: cell_item.score()')
                        return lambda: L.cell_item_score(s._p)
                    raise AttributeError(f'struct {s._n} has no declared field {k}')
                if not s._p:
                    rt.faults.append(f'NULL pointer dereference: {s._n}.{k}')
                    raise RuntimeError('NULL pointer dereference in translated pyx: %s.%s' % (s._n, k))
                t = f[k]
                if t == 'string':
                    n = ctypes.c_uint()
                    b = getattr(L, f'{s._n}_get_{k}')(s._p, ctypes.byref(n))
                    return ctypes.string_at(b, n.value)
                if t.endswith('*'):
                    return Struct(t[:-1].strip(), getattr(L, f'{s._n}_get_{k}')(s._p), False)
                v = getattr(L, f'{s._n}_get_{k}')(s._p)
                return bool(v) if t in ('bint', 'bool') else v

            def __setattr__(s, k, v):
                if k not in s._f:
                    raise AttributeError(f'struct {s._n} has no declared field {k}')
                t = s._f[k]
                if t == 'string':
                    if not isinstance(v, bytes):
                        raise TypeError('expected bytes, got %s' % type(v).__name__)
                    getattr(L, f'{s._n}_set_{k}')(s._p, v, len(v))
                elif t in ('unsigned', 'unsigned int', 'size_t'):
                    v = int(v)
                    if v < 0:
                        raise OverflowError("can't convert negative value to unsigned int")
                    if v > 0xFFFFFFFF:
                        raise OverflowError('value too large to convert to unsigned int')
                    getattr(L, f'{s._n}_set_{k}')(s._p, v)
                elif t in ('bint', 'bool'):
                    getattr(L, f'{s._n}_set_{k}')(s._p, 1 if v else 0)
                elif t in ('float', 'double'):
                    getattr(L, f'{s._n}_set_{k}')(s._p, float(v))
                else:
                    getattr(L, f'{s._n}_set_{k}')(s._p, int(v))

        class Pair:
            def __init__(s):
                s.__dict__['first'] = 0
                s.__dict__['second'] = 0

            def __setattr__(s, k, v):
                if k not in ('first', 'second'):
                    raise AttributeError(k)
                s.__dict__[k] = int(v) & 0xFFFFFFFF

        class Cache(Ptr):
            def __init__(s, p=None):
                own = p is None
                Ptr.__init__(s, L.cache_new() if own else p)
                object.__setattr__(s, '_own', own)

            def __del__(s):
                if s._own:
                    L.cache_del(s._p)

            def __getitem__(s, i):
                if i != 0:
                    raise IndexError('only cache[0] is supported')
                return CacheRef(s._p)

            def at(s, key):
                return VecRef(s._p, key)

            def count(s, key):
                return CacheRef(s._p).count(key)

            def size(s):
                return int(L.cache_size(s._p))

            def clear(s):
                L.cache_clear(s._p)

        class CacheRef:
            def __init__(s, p):
                s.p = p

            def __getitem__(s, key):
                return VecRef(s.p, key)

            def at(s, key):         # unordered_map::at (same bounds-checked element access)
                return VecRef(s.p, key)

            def count(s, key):
                return 1 if L.cache_veclen(s.p, key.first, key.second) >= 0 else 0

            def size(s):
                return int(L.cache_size(s.p))

            def clear(s):
                L.cache_clear(s.p)

        class VecRef:
            def __init__(s, p, key):
                s.p = p
                s.key = key

            def size(s):
                n = L.cache_veclen(s.p, s.key.first, s.key.second)
                if n < 0:
                    msg = 'undefined behaviour in the real extension: cache[%d,%d].size() on a missing key' % (
                        s.key.first, s.key.second)
                    rt.faults.append(msg)
                    raise RuntimeError(msg)
                return int(n)

            def __len__(s):
                return s.size()

            def __getitem__(s, idx):
                out = Struct('combinator_result')
                st = L.cache_lookup(s.p, s.key.first, s.key.second, int(idx) & 0xFFFFFFFF, out._p)
                if st:
                    msg = ('undefined behaviour in the real extension: cache[%d,%d][%d] %s'
                           % (s.key.first, s.key.second, idx, 'missing key' if st == 1 else 'index out of range'))
                    rt.faults.append(msg)
                    raise RuntimeError(msg)
                return out

        class VecPtr(Ptr):
            def push_back(s, r):
                L.vec_push_back(s._p, r._p)

        class USet(Ptr):
            def __init__(s):
                Ptr.__init__(s, L.uset_new())

            def insert(s, v):
                v = int(v)
                if v < 0:
                    raise OverflowError("can't convert negative value to unsigned int")
                L.uset_insert(s._p, v)

            def __del__(s):
                L.uset_del(s._p)

        class VoidP(Ptr):
            pass
        self.Struct, self.Pair, self.Cache, self.USet = Struct, Pair, Cache, USet
        self.VoidP, self.VecPtr, self.Ptr = VoidP, VecPtr, Ptr

    # ---- casts
    def to_voidp(self, o):
        self.registry[id(o)] = o
        return self.VoidP(id(o))

    def to_object(self, v):
        if isinstance(v, self.VoidP):
            return self.registry[v._p]
        return v

    def addr(self, o):
        return o

    def to_unsigned(self, v):
        v = int(v)
        if v < 0:
            raise OverflowError("can't convert negative value to unsigned int")
        return v & 0xFFFFFFFF

    def floatptr(self, a):
        return (a.ctypes.data, a)

    def buffer(self, a, name):
        import numpy
        if a is None:
            return a
        if not isinstance(a, numpy.ndarray):
            raise TypeError(f"Argument '{name}' has incorrect type (expected numpy.ndarray, got {type(a).__name__})")
        if a.ndim != 2:
            raise ValueError('Buffer has wrong number of dimensions (expected 2, got %d)' % a.ndim)
        if a.dtype != numpy.float32:
            raise ValueError("Buffer dtype mismatch, expected 'float' but got '%s'" % a.dtype)
        if not a.flags['C_CONTIGUOUS']:
            raise ValueError('ndarray is not C-contiguous')
        return a

    def listcheck(self, v, name):
        if v is not None and not isinstance(v, list):
            raise TypeError(f'Expected list, got {type(v).__name__}')
        return v

    def argcheck(self, v, tp, name):
        if v is not None and not isinstance(v, tp):
            raise TypeError(f"Argument '{name}' has incorrect type (expected {tp.__name__}, got {type(v).__name__})")

    def wrap(self, t, v):
        t = t.replace(' ', '')
        if t == 'void*':
            return self.VoidP(v)
        if t == 'cell_item*':
            return self.Struct('cell_item', v, False)
        if t == 'cache_type*':
            return self.Cache(v)
        if t.startswith('vector['):
            return self.VecPtr(v)
        return v

    # ---- the one C++ entry point
    def parse_sentence(self, tag, dep, length, roots, bcb, ucb, fin, sc, fargs, cache, cfg):
        fsig = self.sigs[fin.__name__]
        ssig = self.sigs[sc.__name__]

        def emulation_fault(e):
            """an AttributeError / TypeError / NotImplementedError whose innermost frame is this file: a proxy of the
            emulation was asked for something it does not emulate (not the translated code's own doing)"""
            import traceback
            tb = traceback.extract_tb(e.__traceback__)
            if isinstance(e, (AttributeError, TypeError, NotImplementedError, IndexError)) and tb and \
                    (tb[-1].filename.endswith('pyxlite.py') or
                     (isinstance(e, AttributeError) and any(n in str(e) for n in
                                                           ("'Cache'", "'CacheRef'", "'VecRef'", "'VecPtr'", "'USet'",
                                                            "'Ptr'", "'Struct'", "'Pair'", "'VoidP'")))):
                self.harness_faults.append(f'{type(e).__name__}: {e}')
                return True
            return False

        def sc_tr(a, b, c, d):
            try:
                args = [self.wrap(t, v) for (t, _), v in zip(ssig['args'], (a, b, c, d))]
                r = sc(*args)
                return int(r or 0)
            except BaseException as e:
                emulation_fault(e)
                if ssig['exc'].startswith('except'):
                    self.pending_exc = e
                    return -1
                self.unraisable.append(e)
                return 0

        def fin_tr(a, b, c, d):
            try:
                args = [self.wrap(t, v) for (t, _), v in zip(fsig['args'], (a, b, c, d))]
                r = fin(*args)
                return int(r or 0) & 0xFFFFFFFF
            except BaseException as e:
                emulation_fault(e)
                if fsig['exc'] == 'noexcept' or not fsig['exc']:
                    self.unraisable.append(e)     # Cython prints and swallows
                    return 0
                self.pending_exc = e
                return 0
        self.pending_exc = None
        st = ctypes.c_uint(0)
        rc = self.lib.call_parse_sentence(tag[0], dep[0], int(length), roots._p, bcb._p, ucb._p,
                                          self.FINALIZER(fin_tr), self.SCAFFOLD(sc_tr), fargs._p, cache._p,
                                          cfg._p, ctypes.byref(st))
        if self.pending_exc is not None:
            e = self.pending_exc
            self.pending_exc = None
            raise e
        if rc:
            raise RuntimeError(self.lib.last_error().decode())
        return st.value

    def set_pop_hook(self, fn):
        """fn(item_proxy) is called for every item popped from the agenda (needs the repo hook
        and DEPCCG_VERIF in the environment); fn=None removes it"""
        if not self.have_hook:
            return False
        if fn is None:
            self._hook_ref = self.POPHOOK(0)
            self.lib.set_pop_hook(self._hook_ref)
            return True

        def tr(p):
            fn(self.Struct('cell_item', p, False))
        self._hook_ref = self.POPHOOK(tr)
        self.lib.set_pop_hook(self._hook_ref)
        return True


# --------------------------------------------------------------------------- translator
def split_args(s):
    out = []
    d = 0
    cur = ''
    for ch in s:
        if ch in '[(':
            d += 1
        if ch in '])':
            d -= 1
        if ch == ',' and d == 0:
            out.append(cur)
            cur = ''
        else:
            cur += ch
    if cur.strip():
        out.append(cur)
    return [a.strip() for a in out if a.strip()]


def _expand_cdef_blocks(lines):
    """a `cdef:` block inside a function is the same as one `cdef <declaration>` line per member"""
    out = []
    i = 0
    while i < len(lines):
        m = re.match(r'^(\s*)cdef\s*:\s*(#.*)?$', lines[i])
        if not m:
            out.append(lines[i])
            i += 1
            continue
        ind = m.group(1)
        i += 1
        while i < len(lines) and (not lines[i].strip() or len(lines[i]) - len(lines[i].lstrip()) > len(ind)):
            if lines[i].strip() and not lines[i].strip().startswith('#'):
                out.append(f'{ind}cdef {lines[i].strip()}')
            i += 1
    return out


def translate(src):
    src = strip_comments(src)
    structs, body = parse_extern(src)
    sigs = {}
    lines = _expand_cdef_blocks(body.split('\n'))
    out = []
    i = 0
    buffers = set()
    lists = set()

    def conv_expr(s):
        s = re.sub(r'<float\s*\*>\s*(\w+)\.data', r'__rt.floatptr(\1)', s)
        s = re.sub(r'<object>\s*(\w+)', r'__rt.to_object(\1)', s)
        s = re.sub(r'<void\s*\*>\s*(\w+)', r'__rt.to_voidp(\1)', s)
        if re.search(r'(?<=[\(,\s=])&\w+\s*[\[\.]', s) and not s.lstrip().startswith('#'):
            # the address of an element / member (a typed C++ pointer the emulation has no proxy for)
            raise BuildError('address-of an expression other than a plain name: ' + s.strip())
        s = re.sub(r'(?<=[\(,\s])&(\w+)', r'__rt.addr(\1)', s)
        # `p is NULL` / `p is not NULL`: pointer identity with NULL is pointer equality
        s = re.sub(r'\bis\s+not\s+NULL\b', '!= NULL', s)
        s = re.sub(r'\bis\s+NULL\b', '== NULL', s)
        # scalar casts of a name / attribute / simple call: <unsigned>x, <int>len(y), <float>a.b, <bint>f
        s = re.sub(r'<\s*(unsigned(?:\s+int)?|size_t|Py_ssize_t)\s*>\s*([\w\.]+(?:\([^()]*\))?)', r'__rt.to_unsigned(\2)', s)
        s = re.sub(r'<\s*(int|long)\s*>\s*([\w\.]+(?:\([^()]*\))?)', r'int(\2)', s)
        s = re.sub(r'<\s*(float|double)\s*>\s*([\w\.]+(?:\([^()]*\))?)', r'float(\2)', s)
        s = re.sub(r'<\s*bint\s*>\s*([\w\.]+(?:\([^()]*\))?)', r'bool(\1)', s)
        s = re.sub(r'<\s*(dict|list|tuple|str|bytes|set)\s*>\s*(?=[\w\(])', '', s)
        if re.search(r'<\s*\w+[\s\*]*>\s*\w', s) and '->' not in s and not s.lstrip().startswith('#'):
            raise BuildError('unknown cast: ' + s)
        return s
    while i < len(lines):
        ln = lines[i]
        if re.match(r'^\s*(from\s+\S+\s+)?cimport\s', ln):
            i += 1
            continue
        m = re.match(r'^(\s*)cdef\s+(.*)$', ln)
        if m and '(' in ln and (ln.rstrip().endswith(':') or ln.rstrip().endswith(',') or ln.rstrip().endswith('(')):
            hdr = ln
            guard = 0
            while not re.search(r'\)\s*(except\s+[-\w+]+|noexcept)?\s*:\s*$', hdr):
                i += 1
                guard += 1
                if i >= len(lines) or guard > 40:
                    raise BuildError('unterminated cdef function header: ' + ln)
                hdr += ' ' + lines[i].strip()
            mh = re.match(r'^(\s*)cdef\s+(?:([\w\[\], \*]+?)\s+)?(\w+)\s*\((.*)\)\s*(except\s+[-\w+]+|noexcept)?\s*:\s*$', hdr)
            if not mh:
                raise BuildError('cannot parse cdef function header: ' + hdr)
            ind, ret, name, args, exc = mh.groups()
            alist = []
            for a in split_args(args):
                ma = re.match(r'^(.*?)(\w+)$', a)
                alist.append((ma.group(1).strip(), ma.group(2)))
            sigs[name] = {'ret': ret, 'args': alist, 'exc': (exc or '').strip()}
            out.append(f'{ind}def {name}({", ".join(n for _, n in alist)}):')
            for t, n in alist:
                if t in ('list', 'dict'):
                    out.append(f'{ind}    __rt.argcheck({n},{t},{n!r})')
            i += 1
            continue
        if m:
            ind, rest = m.groups()
            if '#' in rest and "'" not in rest and '"' not in rest:
                rest = rest[:rest.index('#')].rstrip()          # (a trailing comment on a declaration)
            d = 0
            init = None
            decl = rest
            for k, ch in enumerate(rest):
                if ch in '[(':
                    d += 1
                elif ch in '])':
                    d -= 1
                elif ch == '=' and d == 0:
                    decl, init = rest[:k].strip(), rest[k + 1:].strip()
                    break
            if re.match(r'^\w+(\s*,\s*\w+)*$', decl) and (',' in decl or ' ' not in decl):
                typ, names = '', [n.strip() for n in decl.split(',')]
            else:
                mt = re.match(r"^(?P<type>.+?[\s\*])(?P<names>\*?\w+(?:\s*,\s*\*?\w+)*)$", decl)
                if not mt:
                    raise BuildError('cannot parse cdef: ' + ln)
                typ = mt.group('type').strip()
                names = [n.strip() for n in mt.group('names').split(',')]
                if any(n.startswith('*') for n in names):
                    typ += ' *'
                names = [n.lstrip('*') for n in names]
            base = typ.replace('*', '').strip()
            stm = []
            for n in names:
                if base in structs and '*' not in typ:
                    stm.append(f"{n} = __rt.Struct('{base}')")
                elif base.startswith('pair['):
                    stm.append(f'{n} = __rt.Pair()')
                elif base.startswith('unordered_set['):
                    stm.append(f'{n} = __rt.USet()')
                elif base == 'cache_type' and '*' not in typ:
                    stm.append(f'{n} = __rt.Cache()')
                elif base.startswith('np.ndarray['):
                    buffers.add(n)
                elif base == 'list':
                    lists.add(n)
                elif base in ('', 'object', 'bint', 'unsigned', 'int', 'float', 'double', 'dict', 'str', 'long',
                              'size_t', 'Py_ssize_t', 'unsigned int', 'tuple', 'bytes', 'string') or '*' in typ:
                    pass
                else:
                    raise BuildError('unknown cdef type: ' + ln)
            if init is not None:
                stm.append(f'{names[0]} = {conv_expr(init)}')
            out.append(ind + ('; '.join(stm) if stm else 'pass'))
            i += 1
            continue
        if re.match(r'^\s*def\s+\w+\s*\(', ln):
            hdr = ln
            j = i
            while not re.search(r'\)\s*(->\s*[^:]+)?:\s*$', hdr):
                j += 1
                if j >= len(lines):
                    raise BuildError('unterminated def header: ' + ln)
                hdr += '\n' + lines[j]
            checks = []

            def fix(mm):
                checks.append((mm.group(2), mm.group(3)))
                return mm.group(1) + mm.group(3)
            hdr2 = re.sub(r'([\(,]\s*)(list|dict|object|str|int|float|bint)\s+(\w+)', fix, hdr)
            hdr2 = re.sub(r'(\w)\s+(?:not\s+None|or\s+None)(?=\s*[,)=])', r'\1', hdr2)
            out.extend(hdr2.split('\n'))
            ind = re.match(r'^(\s*)', ln).group(1) + '    '
            for t, n in checks:
                if t in ('list', 'dict'):
                    out.append(f'{ind}__rt.argcheck({n},{t},{n!r})')
            i = j + 1
            continue
        ln2 = conv_expr(ln)
        out.append(ln2)
        mf = re.match(r'^(\s*)for\s+(.*?)\s+in\s+.*:\s*$', ln2)
        if mf:
            tg = set(re.findall(r'\w+', mf.group(2)))
            for b in sorted(tg & buffers):
                out.append(f'{mf.group(1)}    {b} = __rt.buffer({b},{b!r})')
            for b in sorted(tg & lists):
                out.append(f'{mf.group(1)}    {b} = __rt.listcheck({b},{b!r})')
        ma = re.match(r'^(\s*)(\w+)\s*=[^=]', ln2)
        if ma and ma.group(2) in lists:
            out.append(f'{ma.group(1)}{ma.group(2)} = __rt.listcheck({ma.group(2)},{ma.group(2)!r})')
        if ma and ma.group(2) in buffers:
            out.append(f'{ma.group(1)}{ma.group(2)} = __rt.buffer({ma.group(2)},{ma.group(2)!r})')
        i += 1
    return structs, sigs, '\n'.join(out)


# --------------------------------------------------------------------------- build
_built = {}


def build(repo, sanitize=False):
    """translate + compile from the working tree; registers depccg._parsing; returns (module, runtime)"""
    key = (repo, sanitize)
    if key in _built:
        return _built[key]
    pyx = os.path.join(repo, 'depccg', 'parsing.pyx')
    hdr = os.path.join(repo, 'depccg', 'parsing.h')
    try:
        src = open(pyx).read()
        hsrc = open(hdr).read()
    except OSError as e:
        raise BuildError(str(e))
    have_hook = 'verif_pop_hook' in hsrc
    structs, sigs, py = translate(src)
    builddir = tempfile.mkdtemp(prefix='depccg_pyxlite_')
    from vlib import env as _env
    _env.register_tempdir(builddir)
    cpp = os.path.join(builddir, 'shim.cpp')
    with open(cpp, 'w') as f:
        f.write(gen_shim(structs, have_hook))
    so = os.path.join(builddir, 'libshim.so')
    std = '-std=c++11'
    try:
        m_std = re.search(r'-std=(c\+\+\w+|gnu\+\+\w+)', open(os.path.join(repo, 'setup.py')).read())
        if m_std:
            std = '-std=' + m_std.group(1)      # the standard the package itself is built with
    except OSError:
        pass
    cmd = ['g++', '-O2', std, '-shared', '-fPIC', '-I' + repo, cpp, '-o', so]
    if sanitize:
        cmd[1:2] = ['-O1', '-g', '-fsanitize=address,undefined', '-fno-omit-frame-pointer']
    r = subprocess.run(cmd, capture_output=True, text=True)
    if r.returncode != 0:
        raise BuildError('g++ failed on depccg/parsing.h:\n' + r.stderr[-3000:])
    lib = ctypes.CDLL(so)
    rt = Runtime(lib, structs, sigs, have_hook)
    mod = types.ModuleType('depccg._parsing')
    class _NP:
        def __getattr__(self, name):
            import numpy
            if name == 'import_array':
                return lambda *a, **k: None
            return getattr(numpy, name)
    mod.__dict__.setdefault('np', _NP())
    mod.__dict__.update({'nullptr': rt.NULL})
    mod.__dict__.update({'INFINITY': float('inf'), 'HUGE_VAL': float('inf'), 'NAN': float('nan'),
                         'INT_MAX': 0x7FFFFFFF, 'exp': math.exp, 'log': math.log, 'sqrt': math.sqrt, 'fabs': abs})
    mod.__dict__.update({'__rt': rt, 'NULL': rt.NULL, 'UINT_MAX': 0xFFFFFFFF, 'parse_sentence': rt.parse_sentence,
                         'deref': lambda p: p[0]})
    pyfile = os.path.join(builddir, '_parsing_translated.py')
    with open(pyfile, 'w') as f:
        f.write(py)
    try:
        code = compile(py, pyfile, 'exec')
    except SyntaxError as e:
        raise BuildError(f'translated parsing.pyx does not compile: {e}')
    try:
        exec(code, mod.__dict__)
    except Exception as e:
        raise BuildError(f'translated parsing.pyx failed at import: {type(e).__name__}: {e}')
    for f in list(mod.__dict__.values()):
        if isinstance(f, types.FunctionType):
            f.__module__ = 'depccg._parsing'
    sys.modules['depccg._parsing'] = mod
    import depccg
    depccg._parsing = mod
    mod.__translated_source__ = py
    _built[key] = (mod, rt)
    return mod, rt
