"""G-tree: derivations licensed by the live grammars (grown top-down from an inverse rule index)
and arbitrary well-formed trees; all tape-driven.

A derivation model is
    ('L', cat)                                     leaf
    ('U', cat, child, label, symbol)               unary
    ('B', cat, left, right, label, symbol, head_is_left)
with cat a category model (vlib.model_cat).
"""
import functools

from vlib import inventory
from vlib.model_cat import erase, model_of, read, to_cat


class RuleIndex:
    """inverse index of the live grammar over the shipped seen-rule pairs and unary table"""

    def __init__(self, lang):
        from depccg.grammar import en, ja
        self.lang = lang
        mod = en if lang == 'en' else ja
        self.by_result = {}          # result model -> [(x, y, label, symbol, head_is_left)]
        self.by_label = {}           # (label, symbol) -> [(x, y, result)]
        self.unary_by_result = {}    # result -> [(x, label, symbol)]
        self.unary_table = {}        # x -> [targets]
        which = 'en' if lang == 'en' else 'ja'
        pairs = list(dict.fromkeys((read(a), read(b)) for a, b in inventory.seen_rules(which)))
        if lang == 'en':
            pairs += list(dict.fromkeys((read(a), read(b)) for a, b in inventory.seen_rules('en_rebank')))[:800]
        self.pairs = pairs
        for mx, my in pairs:
            try:
                rs = mod.apply_binary_rules(to_cat(mx), to_cat(my))
            except Exception:
                continue
            for r in rs:
                mr = model_of(r.cat)
                self.by_result.setdefault(mr, []).append((mx, my, r.op_string, r.op_symbol, bool(r.head_is_left)))
                self.by_label.setdefault((r.op_string, r.op_symbol), []).append((mx, my, mr))
        for a, b in inventory.unary_rules(which):
            self.unary_table.setdefault(read(a), []).append(read(b))
        table = {to_cat(k): [to_cat(v) for v in vs] for k, vs in self.unary_table.items()}
        for k in self.unary_table:
            try:
                rs = mod.apply_unary_rules(to_cat(k), table)
            except Exception:
                continue
            for r in rs:
                self.unary_by_result.setdefault(model_of(r.cat), []).append((k, r.op_string, r.op_symbol))
                self.by_label.setdefault((r.op_string, r.op_symbol), [])
        self.results = sorted(self.by_result, key=repr)
        self.targets = list(dict.fromkeys(read(s) for s in inventory.targets(which)))
        tset = set(self.targets)
        self.root_candidates = [m for m in self.results if m[0] == 'a'] or self.results[:20]

    def unary_spec(self):
        from vlib.model_cat import canon
        return [[canon(k), [canon(v) for v in vs]] for k, vs in self.unary_table.items()]


@functools.lru_cache(None)
def rule_index(lang):
    return RuleIndex(lang)


def t_derivation(t, idx, max_leaves=6, root=None):
    """grow a grammar-licensed derivation top-down"""
    budget = [t.int(1, max_leaves)]
    root = root if root is not None else t.pick(idx.root_candidates)

    def grow(c, depth, allow_unary=True):
        can_bin = c in idx.by_result and budget[0] >= 2 and depth < 7
        can_un = allow_unary and c in idx.unary_by_result and depth < 7
        choice = t.weighted([(5, 'bin'), (1, 'un'), (2, 'leaf')])
        if choice == 'bin' and can_bin:
            opts = idx.by_result[c]
            x, y, lab, sym, hl = opts[t.below(len(opts))]
            budget[0] -= 1
            return ('B', c, grow(x, depth + 1), grow(y, depth + 1), lab, sym, hl)
        if choice == 'un' and can_un:
            opts = idx.unary_by_result[c]
            x, lab, sym = opts[t.below(len(opts))]
            return ('U', c, grow(x, depth + 1, False), lab, sym)
        if can_bin and choice != 'leaf':
            opts = idx.by_result[c]
            x, y, lab, sym, hl = opts[t.below(len(opts))]
            budget[0] -= 1
            return ('B', c, grow(x, depth + 1), grow(y, depth + 1), lab, sym, hl)
        return ('L', c)
    # a unary step may not sit at the root of a multi-word sentence
    d = grow(root, 0, allow_unary=False)
    return d


def leaves_of(d):
    if d[0] == 'L':
        return [d[1]]
    if d[0] == 'U':
        return leaves_of(d[2])
    return leaves_of(d[2]) + leaves_of(d[3])


def labels_of(d):
    if d[0] == 'L':
        return []
    if d[0] == 'U':
        return [(d[3], d[4])] + labels_of(d[2])
    return [(d[4], d[5])] + labels_of(d[2]) + labels_of(d[3])


def size_of(d):
    return len(leaves_of(d))
