"""G-tree: derivations licensed by the live grammars (grown top-down from an inverse rule index)
and arbitrary well-formed trees; all tape-driven.

A derivation model is
    ('L', cat)                                     leaf
    ('U', cat, child, label, symbol)               unary
    ('B', cat, left, right, label, symbol, head_is_left)
with cat a category model (vlib.model_cat).
"""
import functools

from vlib import inventory
from vlib.model_cat import erase, model_of, read, to_cat


class RuleIndex:
    """inverse index of the live grammar over the shipped seen-rule pairs and unary table"""

    def __init__(self, lang):
        from depccg.grammar import en, ja
        self.lang = lang
        mod = en if lang == 'en' else ja
        self.by_result = {}          # result model -> [(x, y, label, symbol, head_is_left)]
        self.by_label = {}           # (label, symbol) -> [(x, y, result)]
        self.unary_by_result = {}    # result -> [(x, label, symbol)]
        self.unary_table = {}        # x -> [targets]
        which = 'en' if lang == 'en' else 'ja'
        pairs = list(dict.fromkeys((read(a), read(b)) for a, b in inventory.seen_rules(which)))
        if lang == 'en':
            pairs += list(dict.fromkeys((read(a), read(b)) for a, b in inventory.seen_rules('en_rebank')))[:800]
        self.pairs = pairs
        for mx, my in pairs:
            try:
                rs = mod.apply_binary_rules(to_cat(mx), to_cat(my))
            except Exception:
                continue
            for r in rs:
                mr = model_of(r.cat)
                self.by_result.setdefault(mr, []).append((mx, my, r.op_string, r.op_symbol, bool(r.head_is_left)))
                self.by_label.setdefault((r.op_string, r.op_symbol), []).append((mx, my, mr))
        for a, b in inventory.unary_rules(which):
            self.unary_table.setdefault(read(a), []).append(read(b))
        table = {to_cat(k): [to_cat(v) for v in vs] for k, vs in self.unary_table.items()}
        for k in self.unary_table:
            try:
                rs = mod.apply_unary_rules(to_cat(k), table)
            except Exception:
                continue
            for r in rs:
                self.unary_by_result.setdefault(model_of(r.cat), []).append((k, r.op_string, r.op_symbol))
                self.by_label.setdefault((r.op_string, r.op_symbol), [])
        # category pairs the grammar combines into two or more different result categories
        by_pair = {}
        for mr, lst in self.by_result.items():
            for (mx, my, lab, sym, hl) in lst:
                by_pair.setdefault((mx, my), {}).setdefault(mr, (lab, sym, hl))
        self.ambiguous_pairs = sorted(((k, sorted(v.items(), key=repr)) for k, v in by_pair.items() if len(v) >= 2),
                                      key=repr)
        self.results = sorted(self.by_result, key=repr)
        self.targets = list(dict.fromkeys(read(s) for s in inventory.targets(which)))
        tset = set(self.targets)
        self.root_candidates = [m for m in self.results if m[0] == 'a'] or self.results[:20]

    def unary_spec(self):
        from vlib.model_cat import canon
        return [[canon(k), [canon(v) for v in vs]] for k, vs in self.unary_table.items()]


@functools.lru_cache(None)
def rule_index(lang):
    return RuleIndex(lang)


def t_derivation(t, idx, max_leaves=6, root=None):
    """grow a grammar-licensed derivation top-down"""
    budget = [t.int(1, max_leaves)]
    root = root if root is not None else t.pick(idx.root_candidates)

    def grow(c, depth, allow_unary=True):
        can_bin = c in idx.by_result and budget[0] >= 2 and depth < 7
        can_un = allow_unary and c in idx.unary_by_result and depth < 7
        choice = t.weighted([(5, 'bin'), (1, 'un'), (2, 'leaf')])
        if choice == 'bin' and can_bin:
            opts = idx.by_result[c]
            x, y, lab, sym, hl = opts[t.below(len(opts))]
            budget[0] -= 1
            return ('B', c, grow(x, depth + 1), grow(y, depth + 1), lab, sym, hl)
        if choice == 'un' and can_un:
            opts = idx.unary_by_result[c]
            x, lab, sym = opts[t.below(len(opts))]
            return ('U', c, grow(x, depth + 1, False), lab, sym)
        if can_bin and choice != 'leaf':
            opts = idx.by_result[c]
            x, y, lab, sym, hl = opts[t.below(len(opts))]
            budget[0] -= 1
            return ('B', c, grow(x, depth + 1), grow(y, depth + 1), lab, sym, hl)
        return ('L', c)
    # a unary step may not sit at the root of a multi-word sentence
    d = grow(root, 0, allow_unary=False)
    return d


def leaves_of(d):
    if d[0] == 'L':
        return [d[1]]
    if d[0] == 'U':
        return leaves_of(d[2])
    return leaves_of(d[2]) + leaves_of(d[3])


def labels_of(d):
    if d[0] == 'L':
        return []
    if d[0] == 'U':
        return [(d[3], d[4])] + labels_of(d[2])
    return [(d[4], d[5])] + labels_of(d[2]) + labels_of(d[3])


def size_of(d):
    return len(leaves_of(d))


# ------------------------------------------------------------------ arbitrary well-formed trees
EN_BINARY_LABELS = [('fa', '>'), ('ba', '<'), ('fc', '>B'), ('bx', '<B'), ('gfc', '>B'), ('gbx', '<B'),
                    ('conj', '<Φ>'), ('lp', '<lp>'), ('rp', '<rp>'), ('lp', '<*>')]
EN_UNARY_LABELS = [('lex', '<un>'), ('tr', '<un>')]
JA_BINARY_LABELS = [('fa', '>'), ('ba', '<'), ('fc', '>B'), ('bx', '<B1'), ('bx', '<B2'), ('bx', '<B3'), ('bx', '<B4'),
                    ('fx', '>Bx1'), ('fx', '>Bx2'), ('fx', '>Bx3'), ('other', 'SSEQ')]
JA_UNARY_LABELS = [('ADNext', 'ADNext'), ('ADNint', 'ADNint'), ('ADV0', 'ADV0'), ('ADV1', 'ADV1'), ('ADV2', 'ADV2'),
                   ('OTHER', 'OTHER')]


def t_arbitrary(t, system, max_leaves=6, depth=4):
    """random shape, random categories, labels from the label vocabulary, either head direction"""
    from vlib import gen_cat
    budget = [t.int(1, max_leaves)]
    bl = EN_BINARY_LABELS if system == 'en' else JA_BINARY_LABELS
    ul = EN_UNARY_LABELS if system == 'en' else JA_UNARY_LABELS

    def cat():
        return gen_cat.t_cat(t, system, depth=t.pick([0, 1, 1, 2]), bar=False)

    def grow(d, top):
        k = t.weighted([(3, 'leaf'), (5, 'bin'), (2, 'un')])
        if k == 'bin' and budget[0] >= 2 and d > 0:
            budget[0] -= 1
            lab, sym = t.pick(bl)
            return ('B', cat(), grow(d - 1, False), grow(d - 1, False), lab, sym, t.chance(128))
        if k == 'un' and d > 0 and not top:
            lab, sym = t.pick(ul)
            return ('U', cat(), grow(d - 1, False), lab, sym)
        return ('L', cat())
    return grow(depth, True)


def build_tree(d, tokens):
    """real depccg Tree from a derivation model and a list of Token objects (consumed left to right)"""
    from depccg.tree import Tree
    it = iter(tokens)

    def rec(x):
        if x[0] == 'L':
            return Tree.make_terminal(next(it), to_cat(x[1]))
        if x[0] == 'U':
            return Tree.make_unary(to_cat(x[1]), rec(x[2]), x[3], x[4])
        left = rec(x[2])
        right = rec(x[3])
        return Tree.make_binary(to_cat(x[1]), left, right, x[4], x[5], x[6])
    return rec(d)


def deriv_json(d):
    from vlib.model_cat import jsonable
    if d[0] == 'L':
        return ['L', jsonable(d[1])]
    if d[0] == 'U':
        return ['U', jsonable(d[1]), deriv_json(d[2]), d[3], d[4]]
    return ['B', jsonable(d[1]), deriv_json(d[2]), deriv_json(d[3]), d[4], d[5], d[6]]


def deriv_from_json(j):
    from vlib.model_cat import from_json
    if j[0] == 'L':
        return ('L', from_json(j[1]))
    if j[0] == 'U':
        return ('U', from_json(j[1]), deriv_from_json(j[2]), j[3], j[4])
    return ('B', from_json(j[1]), deriv_from_json(j[2]), deriv_from_json(j[3]), j[4], j[5], bool(j[6]))


def has_unary(d):
    return d[0] == 'U' or (d[0] == 'B' and (has_unary(d[2]) or has_unary(d[3]))) or (d[0] == 'U' and has_unary(d[2]))


def has_right_headed(d):
    if d[0] == 'L':
        return False
    if d[0] == 'U':
        return has_right_headed(d[2])
    return (not d[6]) or has_right_headed(d[2]) or has_right_headed(d[3])


def n_binary(d):
    if d[0] == 'L':
        return 0
    if d[0] == 'U':
        return n_binary(d[2])
    return 1 + n_binary(d[2]) + n_binary(d[3])


def t_tree_case(t, system=None, licensed=None, max_leaves=6, tok_exclude='', ja_tokens=None, variants=False):
    """a derivation + tokens, JSON-able: {'system', 'licensed', 'deriv', 'tokens'}"""
    from vlib import gen_tok
    system = system or t.pick(['en', 'en', 'ja'])
    licensed = t.chance(128) if licensed is None else licensed
    if licensed:
        d = t_derivation(t, rule_index(system), max_leaves=max_leaves)
    else:
        d = t_arbitrary(t, system, max_leaves=max_leaves)
    n = size_of(d)
    use_ja_tokens = (system == 'ja') if ja_tokens is None else ja_tokens
    if variants:
        toks = [gen_tok.t_token_variant(t, 'ja' if use_ja_tokens else 'en', tok_exclude) for _ in range(n)]
    else:
        toks = [(gen_tok.t_token_ja if use_ja_tokens else gen_tok.t_token_en)(t, tok_exclude) for _ in range(n)]
    case = {'system': system, 'licensed': bool(licensed), 'deriv': deriv_json(d), 'tokens': toks}
    if n >= 2 and t.tail(6) % 3 == 0:
        # a word that occurs twice in the sentence: two tokens equal in every attribute (what the default
        # annotation gives for a repeated word), in half of these cases one Token object standing at both positions
        j = t.tail(7) % n
        k = (j + 1 + t.tail(8) % (n - 1)) % n
        toks[k] = dict(toks[j])
        if t.tail(9) % 2:
            case['same_token_object'] = [j, k]
    # results of a multi-process parse reach the caller through pickle; some callers copy them
    origin = ('built', 'built', 'pickled', 'deep-copied')[t.tail(5) % 4]
    if origin != 'built':
        case['origin'] = origin
    return case


def _via(obj, origin):
    if origin == 'pickled':
        import pickle
        return pickle.loads(pickle.dumps(obj))
    if origin == 'deep-copied':
        import copy
        return copy.deepcopy(obj)
    return obj


def tokens_of_case(case):
    from vlib import gen_tok
    tokens = [gen_tok.make_token(tk) for tk in case['tokens']]
    so = case.get('same_token_object')
    if so and max(so) < len(tokens):
        tokens[so[1]] = tokens[so[0]]
    return tokens


def tree_of_case(case, tokens=None):
    """tokens: Token objects to use (the parser shares one Token list between the n-best trees of a sentence)"""
    if tokens is None:
        tokens = tokens_of_case(case)
        return _via(build_tree(deriv_from_json(case['deriv']), tokens), case.get('origin'))
    return build_tree(deriv_from_json(case['deriv']), tokens)


def sentence_trees(sent):
    """the trees of one n-best list, sharing their Token objects as parser output does (also after a trip
    through pickle: the list travels as one object)"""
    tokens = tokens_of_case(sent[0])
    return _via([tree_of_case(tc, tokens) for tc in sent], sent[0].get('origin'))


def t_derivation_with_label(t, idx, label, max_leaves=5):
    """a licensed derivation that contains a node with the given (op_string, op_symbol), if the index has one"""
    ex = idx.by_label.get(label) or []
    if not ex:
        # unary label: look it up among unary results
        for res, lst in idx.unary_by_result.items():
            for x, lab, sym in lst:
                if (lab, sym) == label:
                    child = t_derivation(t, idx, max_leaves=max_leaves, root=x)
                    return ('U', res, child, lab, sym)
        return None
    x, y, res = ex[t.below(len(ex))]
    lab, sym = label
    hl = next((h for (a, b, l2, s2, h) in idx.by_result.get(res, []) if (a, b, l2, s2) == (x, y, lab, sym)), True)
    left = t_derivation(t, idx, max_leaves=max(1, max_leaves // 2), root=x)
    right = t_derivation(t, idx, max_leaves=max(1, max_leaves // 2), root=y)
    return ('B', res, left, right, lab, sym, hl)


def t_ambiguous_pair(t, idx):
    """two one-step derivations over the same two leaf categories with different result categories
    (e.g. ', NP' -> NP\\NP by conjunction and -> NP by punctuation absorption); None if the grammar has none"""
    if not idx.ambiguous_pairs:
        return None
    (x, y), results = idx.ambiguous_pairs[t.below(len(idx.ambiguous_pairs))]
    i = t.below(len(results))
    j = (i + 1 + t.below(len(results) - 1)) % len(results)
    out = []
    for k in (i, j):
        r, (lab, sym, hl) = results[k]
        out.append(('B', r, ('L', x), ('L', y), lab, sym, hl))
    return out
