"""Mini-jsonnet loader for the subset used by depccg/models/*.jsonnet (DESIGN.md 3.4).

Supported: object / array literals, single- or double-quoted strings with backslash
escapes, numbers, true/false/null, bare or quoted keys, trailing commas, comments,
`local x = (import 'file').field;`, and object fields whose value is a local name.
Fields are evaluated lazily, so an emptied file (tokens.en.jsonnet) is only read
when somebody asks for the field that imports it.
"""
import os
import re

_cache = {}


class JsonnetError(Exception):
    pass


class _P:
    def __init__(self, text, path):
        self.s = text
        self.i = 0
        self.path = path

    def ws(self):
        s = self.s
        n = len(s)
        while self.i < n:
            c = s[self.i]
            if c in ' \t\r\n':
                self.i += 1
            elif s.startswith('//', self.i) or c == '#':
                j = s.find('\n', self.i)
                self.i = n if j < 0 else j
            elif s.startswith('/*', self.i):
                j = s.find('*/', self.i)
                self.i = n if j < 0 else j + 2
            else:
                break

    def err(self, msg):
        raise JsonnetError(f'{self.path}: {msg} at offset {self.i}: {self.s[self.i:self.i + 40]!r}')

    def string(self):
        q = self.s[self.i]
        self.i += 1
        out = []
        s = self.s
        while True:
            if self.i >= len(s):
                self.err('unterminated string')
            c = s[self.i]
            if c == '\\':
                n = s[self.i + 1]
                self.i += 2
                if n == 'n':
                    out.append('\n')
                elif n == 't':
                    out.append('\t')
                elif n == 'u':
                    out.append(chr(int(s[self.i:self.i + 4], 16)))
                    self.i += 4
                else:
                    out.append(n)
            elif c == q:
                self.i += 1
                return ''.join(out)
            else:
                out.append(c)
                self.i += 1

    def value(self, locals_):
        """primary ( '+' primary )* : concatenation of arrays / strings, union of objects, sum of numbers"""
        v = self.primary(locals_)
        while True:
            self.ws()
            if self.i < len(self.s) and self.s[self.i] == '+':
                self.i += 1
                w = _force(self.primary(locals_))
                v = _force(v)
                if isinstance(v, dict) and isinstance(w, dict):
                    v = {**v, **w}
                elif type(v) in (list, str, int, float) and type(w) in (list, str, int, float):
                    v = v + w
                else:
                    self.err('operands of + have unsupported types')
            else:
                return v

    def primary(self, locals_):
        self.ws()
        s = self.s
        if self.i >= len(s):
            self.err('unexpected end of file')
        c = s[self.i]
        v = self._atom(locals_)
        # field access: (import 'f').name, x.name
        while True:
            m = re.compile(r'\s*\.\s*([A-Za-z_]\w*)').match(s, self.i)
            if not m:
                return v
            self.i = m.end()
            obj = _force(v)
            if not isinstance(obj, dict) or m.group(1) not in obj:
                self.err(f'no field {m.group(1)}')
            v = obj[m.group(1)]

    def _atom(self, locals_):
        s = self.s
        c = s[self.i]
        if c == '@' and self.i + 1 < len(s) and s[self.i + 1] in '\'"':
            # verbatim string: no escapes, the quote is doubled
            q = s[self.i + 1]
            j = self.i + 2
            out = []
            while True:
                if j >= len(s):
                    self.err('unterminated verbatim string')
                if s[j] == q:
                    if j + 1 < len(s) and s[j + 1] == q:
                        out.append(q)
                        j += 2
                        continue
                    self.i = j + 1
                    return ''.join(out)
                out.append(s[j])
                j += 1
        m = re.compile(r"import\s*(?=['\"])").match(s, self.i)
        if m:
            self.i = m.end()
            fn = self.string()
            target = os.path.join(os.path.dirname(self.path), fn)
            return _Lazy(lambda t=target: load_file(t))
        if c == '(':
            self.i += 1
            v = self.value(locals_)
            self.ws()
            if self.i >= len(s) or s[self.i] != ')':
                self.err('expected )')
            self.i += 1
            return v
        if c in '\'"':
            return self.string()
        if c == '[':
            self.i += 1
            out = []
            while True:
                self.ws()
                if s[self.i] == ']':
                    self.i += 1
                    return out
                out.append(self.value(locals_))
                self.ws()
                if s[self.i] == ',':
                    self.i += 1
                elif s[self.i] != ']':
                    self.err('expected , or ]')
        if c == '{':
            self.i += 1
            out = {}
            while True:
                self.ws()
                if s[self.i] == '}':
                    self.i += 1
                    return out
                if s[self.i] in '\'"':
                    key = self.string()
                else:
                    m = re.compile(r'[^\s:]+').match(s, self.i)
                    key = m.group()
                    self.i = m.end()
                self.ws()
                if s[self.i] != ':':
                    self.err('expected :')
                self.i += 1
                out[key] = self.value(locals_)
                self.ws()
                if s[self.i] == ',':
                    self.i += 1
                elif s[self.i] != '}':
                    self.err('expected , or }')
        m = re.compile(r'-?\d+(\.\d+)?([eE][-+]?\d+)?').match(s, self.i)
        if m:
            self.i = m.end()
            t = m.group()
            return float(t) if any(ch in t for ch in '.eE') else int(t)
        m = re.compile(r'[A-Za-z_]\w*').match(s, self.i)
        if m:
            self.i = m.end()
            w = m.group()
            if w == 'true':
                return True
            if w == 'false':
                return False
            if w == 'null':
                return None
            if w in locals_:
                return _Lazy(locals_[w])
            self.err(f'unknown identifier {w}')
        self.err('unexpected character')


class _Lazy:
    def __init__(self, thunk):
        self.thunk = thunk

    def get(self):
        return self.thunk()


def _force(v):
    return v.get() if isinstance(v, _Lazy) else v


def load_file(path):
    """returns the top-level object as {field: value-or-_Lazy}"""
    path = os.path.abspath(path)
    if path in _cache:
        return _cache[path]
    with open(path, encoding='utf-8') as f:
        text = f.read()
    if not text.strip():
        raise JsonnetError(f'{path}: file is empty')
    p = _P(text, path)
    locals_ = {}
    while True:
        p.ws()
        m = re.compile(r"local\s+(\w+)\s*=\s*\(\s*import\s*'([^']+)'\s*\)\s*\.\s*(\w+)\s*;").match(p.s, p.i)
        if not m:
            break
        name, fn, field = m.groups()
        target = os.path.join(os.path.dirname(path), fn)
        locals_[name] = (lambda t=target, fld=field: get_field(t, fld))
        p.i = m.end()
    while True:
        # local name = <expression>;   (a literal, a concatenation, an earlier local)
        p.ws()
        m = re.compile(r'local\s+(\w+)\s*=\s*').match(p.s, p.i)
        if not m:
            break
        p.i = m.end()
        val = p.value(locals_)
        p.ws()
        if p.i >= len(p.s) or p.s[p.i] != ';':
            p.err('expected ; after a local binding')
        p.i += 1
        locals_[m.group(1)] = (lambda v=val: _force(v))
    obj = p.value(locals_)
    p.ws()
    if p.i != len(p.s):
        p.err('trailing input')
    if not isinstance(obj, dict):
        raise JsonnetError(f'{path}: top level is not an object')
    _cache[path] = obj
    return obj


def get_field(path, field):
    obj = load_file(path)
    if field not in obj:
        raise JsonnetError(f'{path}: no field {field}')
    return _force(obj[field])


class Params:
    """functional stand-in for allennlp.common.params.Params (only what read_params uses)"""

    def __init__(self, obj):
        self._obj = dict(obj)

    @classmethod
    def from_file(cls, path, *a, **k):
        return cls(load_file(str(path)))

    def pop(self, key, default=KeyError, *a, **k):
        if key not in self._obj:
            if default is KeyError:
                raise KeyError(key)
            return default
        return _force(self._obj.pop(key))

    def get(self, key, default=None):
        return _force(self._obj[key]) if key in self._obj else default

    def __contains__(self, key):
        return key in self._obj

    def as_dict(self, *a, **k):
        out = {}
        for key, v in self._obj.items():
            try:
                out[key] = _force(v)
            except Exception:       # (a field whose import cannot be evaluated here, e.g. an emptied file)
                out[key] = None
        return out

    def keys(self):
        return self._obj.keys()

    def __iter__(self):
        return iter(self._obj)


def string_literals(path):
    """independent regex extraction of every string literal of a file (cross-check)"""
    with open(path, encoding='utf-8') as f:
        txt = f.read()
    # comments are not literals: drop // ... , # ... and /* ... */ that stand outside strings
    txt = re.sub(r"""('(?:[^'\\]|\\.)*'|"(?:[^"\\]|\\.)*")|//[^\n]*|#[^\n]*|/\*.*?\*/""",
                 lambda m: m.group(1) or '', txt, flags=re.S)
    out = []
    for a, b in re.findall(r"'((?:[^'\\]|\\.)*)'|\"((?:[^\"\\]|\\.)*)\"", txt):
        s = a or b
        out.append(re.sub(r'\\(.)', r'\1', s))
    return out
