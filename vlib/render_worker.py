"""Child interpreter for C18: renders one batch in one format in a process without any rendering history.
stdin: one JSON object per line {'system', 'batch', 'fmt'}; stdout: one JSON string per line."""
import json
import sys


def main():
    from vlib import env  # noqa: F401
    from checks import c18
    from depccg.lang import set_global_language_to
    for line in sys.stdin:
        line = line.strip()
        if not line:
            continue
        q = json.loads(line)
        set_global_language_to(q['system'])
        out = c18.render(c18.build_batch(q), q['fmt'])
        sys.stdout.write(json.dumps(out) + '\n')
        sys.stdout.flush()


if __name__ == '__main__':
    main()
