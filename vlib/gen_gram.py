"""G-gram: grammars handed to the parser — synthetic rule tables (picklable) and the real rule functions."""
import functools

SYN_POOL = ['A', 'B', 'D', 'E', 'G', 'A/B', 'B\\A', '(A/B)/D', 'E\\E', 'S', 'S/S', 'H']


class TableGrammar:
    """picklable synthetic grammar: tables keyed by Category objects"""

    def __init__(self, spec):
        from depccg.cat import Category
        from depccg.types import CombinatorResult
        self.spec = spec
        self.cats = [Category.parse(s) for s in spec['cats']]
        self.b = {}
        for xi, yi, results in spec['binary']:
            self.b[(self.cats[xi], self.cats[yi])] = [
                CombinatorResult(self.cats[ci], lab, sym, bool(hl)) for ci, lab, sym, hl in results]
        self.u = {}
        for xi, results in spec['unary']:
            self.u[self.cats[xi]] = [CombinatorResult(self.cats[ci], lab, sym, True) for ci, lab, sym in results]
        self.calls = 0

    def binary(self, x, y):
        self.calls += 1
        return list(self.b.get((x, y), []))

    def unary(self, x):
        self.calls += 1
        return list(self.u.get(x, []))

    def __getstate__(self):
        return {'spec': self.spec}

    def __setstate__(self, st):
        self.__init__(st['spec'])


def t_table_spec(t, head_mode, K=None, multi_label=False):
    """draw a synthetic table spec from the tape.
    head_mode: 'left' | 'right' | 'mixed'.  multi_label: prefer several differently-labelled results per pair"""
    K = K or t.int(3, 8)
    cats = SYN_POOL[:K]
    binary = []
    density = t.pick([90, 130, 170])
    for x in range(K):
        for y in range(K):
            if not t.chance(density):
                continue
            nres = t.weighted([(5, 1), (3, 2), (1, 3)]) if not multi_label else t.weighted([(2, 1), (4, 2), (3, 3)])
            results = []
            used = set()
            for i in range(nres):
                ci = t.below(K)
                lab = f'l{i}'
                sym = f's{i}' if not t.chance(40) else f's{i}x'
                if head_mode == 'left':
                    hl = True
                elif head_mode == 'right':
                    hl = False
                else:
                    hl = t.chance(128)
                if (ci, lab, sym) in used:
                    continue
                used.add((ci, lab, sym))
                results.append([ci, lab, sym, hl])
            if multi_label and len(results) >= 2 and t.chance(90):
                results[1][0] = results[0][0]          # same category, different label
            binary.append([x, y, results])
    unary = []
    udens = t.pick([0, 50, 90])
    for x in range(K - 1):
        if not t.chance(udens):
            continue
        nres = 1 if not t.chance(70) else 2
        results = []
        for i in range(nres):
            ci = t.int(x + 1, K - 1)                 # acyclic: targets later in the total order
            if any(r[0] == ci and not multi_label for r in results):
                continue
            results.append([ci, f'u{i}', f'U{i}'])
        unary.append([x, results])
    return {'kind': 'table', 'cats': cats, 'binary': binary, 'unary': unary, 'head_mode': head_mode}


class RealGrammar:
    """picklable wrapper around the real rule functions as read_params builds them"""

    def __init__(self, spec):
        from depccg.cat import Category
        from depccg.grammar import en, ja
        self.spec = spec
        mod = en if spec['kind'] == 'en' else ja
        seen = None
        if spec.get('seen'):
            seen = {(Category.parse(a).clear_features('X', 'nb'), Category.parse(b).clear_features('X', 'nb'))
                    for a, b in spec['seen']}
        table = {}
        for k, vs in spec['unary']:
            table.setdefault(Category.parse(k), []).extend(Category.parse(v) for v in vs)
        self.binary = functools.partial(mod.apply_binary_rules, seen_rules=seen)
        self.unary = functools.partial(mod.apply_unary_rules, unary_rules=table)

    def __getstate__(self):
        return {'spec': self.spec}

    def __setstate__(self, st):
        self.__init__(st['spec'])


def make_grammar(spec):
    if spec['kind'] == 'table':
        return TableGrammar(spec)
    return RealGrammar(spec)
