"""G-gram: grammars handed to the parser — synthetic rule tables (picklable) and the real rule functions."""
import functools

SYN_POOL = ['A', 'B', 'D', 'E', 'G', 'A/B', 'B\\A', '(A/B)/D', 'E\\E', 'S', 'S/S', 'H']


class TableGrammar:
    """picklable synthetic grammar: tables keyed by Category objects"""

    def __init__(self, spec):
        from depccg.cat import Category
        from depccg.types import CombinatorResult
        self.spec = spec
        self.cats = [Category.parse(s) for s in spec['cats']]
        self.b = {}
        for xi, yi, results in spec['binary']:
            self.b[(self.cats[xi], self.cats[yi])] = [
                CombinatorResult(self.cats[ci], lab, sym, bool(hl)) for ci, lab, sym, hl in results]
        self.u = {}
        for xi, results in spec['unary']:
            self.u[self.cats[xi]] = [CombinatorResult(self.cats[ci], lab, sym, True) for ci, lab, sym in results]
        self.calls = 0

    def binary(self, x, y):
        self.calls += 1
        return list(self.b.get((x, y), []))

    def unary(self, x):
        self.calls += 1
        return list(self.u.get(x, []))

    def __getstate__(self):
        return {'spec': self.spec}

    def __setstate__(self, st):
        self.__init__(st['spec'])


def t_table_spec(t, head_mode, K=None, multi_label=False):
    """draw a synthetic table spec from the tape.
    head_mode: 'left' | 'right' | 'mixed'.  multi_label: prefer several differently-labelled results per pair"""
    K = K or t.int(3, 8)
    cats = SYN_POOL[:K]
    binary = []
    density = t.pick([90, 130, 170])
    for x in range(K):
        for y in range(K):
            if not t.chance(density):
                continue
            nres = t.weighted([(5, 1), (3, 2), (1, 3)]) if not multi_label else t.weighted([(2, 1), (4, 2), (3, 3)])
            results = []
            used = set()
            for i in range(nres):
                ci = t.below(K)
                lab = f'l{i}'
                sym = f's{i}' if not t.chance(40) else f's{i}x'
                if head_mode == 'left':
                    hl = True
                elif head_mode == 'right':
                    hl = False
                else:
                    hl = t.chance(128)
                if (ci, lab, sym) in used:
                    continue
                used.add((ci, lab, sym))
                results.append([ci, lab, sym, hl])
            if multi_label and len(results) >= 2 and t.chance(90):
                results[1][0] = results[0][0]          # same category, different label
            binary.append([x, y, results])
    unary = []
    udens = t.pick([0, 50, 90])
    for x in range(K - 1):
        if not t.chance(udens):
            continue
        nres = 1 if not t.chance(70) else 2
        results = []
        for i in range(nres):
            ci = t.int(x + 1, K - 1)                 # acyclic: targets later in the total order
            if any(r[0] == ci and not multi_label for r in results):
                continue
            results.append([ci, f'u{i}', f'U{i}'])
        unary.append([x, results])
    return {'kind': 'table', 'cats': cats, 'binary': binary, 'unary': unary, 'head_mode': head_mode}


class RealGrammar:
    """picklable wrapper around the real rule functions as read_params builds them"""

    def __init__(self, spec):
        from depccg.cat import Category
        from depccg.grammar import en, ja
        self.spec = spec
        mod = en if spec['kind'] == 'en' else ja
        seen = None
        if spec.get('seen'):
            seen = {(Category.parse(a).clear_features('X', 'nb'), Category.parse(b).clear_features('X', 'nb'))
                    for a, b in spec['seen']}
        table = {}
        for k, vs in spec['unary']:
            table.setdefault(Category.parse(k), []).extend(Category.parse(v) for v in vs)
        self.binary = functools.partial(mod.apply_binary_rules, seen_rules=seen)
        self.unary = functools.partial(mod.apply_unary_rules, unary_rules=table)

    def __getstate__(self):
        return {'spec': self.spec}

    def __setstate__(self, st):
        self.__init__(st['spec'])


class ModGrammar:
    """picklable functional grammar over K atomic categories C0..C{K-1}, too many for an explicit table:
    binary(Ci, Cj) = [C((a*i + b*j + c) mod K0)] when i, j < K0 and (p*i + q*j) mod m < d, else nothing; unary(Ci) =
    [C(i+1)] when i mod u == 0 (categories from K0 on are inert).  Used to drive one parser call through hundreds of thousands of distinct rule applications."""

    def __init__(self, spec):
        from depccg.cat import Category
        from depccg.types import CombinatorResult
        self.spec = spec
        K = spec['K']
        self.cats = [Category.parse(f'C{i}') for i in range(K)]
        self.index = {c: i for i, c in enumerate(self.cats)}
        self.CR = CombinatorResult
        self.calls = 0

    def binary(self, x, y):
        self.calls += 1
        sp = self.spec
        i, j = self.index[x], self.index[y]
        K0 = sp.get('K0', sp['K'])          # categories from K0 on are inert: no rule combines them
        if i >= K0 or j >= K0 or (sp['p'] * i + sp['q'] * j) % sp['m'] >= sp['d']:
            return []
        r = (sp['a'] * i + sp['b'] * j + sp['c']) % K0
        return [self.CR(self.cats[r], 'l0', 's0', bool(sp['head_left']))]

    def unary(self, x):
        self.calls += 1
        sp = self.spec
        i = self.index[x]
        if sp['u'] and i % sp['u'] == 0 and i + 1 < sp.get('K0', sp['K']):
            return [self.CR(self.cats[i + 1], 'u0', 'U0', True)]
        return []

    def __getstate__(self):
        return {'spec': self.spec}

    def __setstate__(self, st):
        self.__init__(st['spec'])


def make_grammar(spec):
    if spec['kind'] == 'table':
        return TableGrammar(spec)
    if spec['kind'] == 'mod':
        return ModGrammar(spec)
    return RealGrammar(spec)
