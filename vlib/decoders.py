"""D-*: one independent reader per output format, written against the format (not against the
printers), plus the reference each one is compared with (M-tree projected to what the format carries).

Decoded / reference trees are nested tuples:
    ('L', cat_text, word, attrs_tuple)
    ('T', cat_text, label, head_flag, (children...))          label / head_flag None where not carried
A decoded document is a list of records (sentence_index, tree_index_or_None, tree).
"""
import html as htmllib
import json
import re

from vlib.model_cat import canon, ftxt


class DecodeError(Exception):
    pass


# ------------------------------------------------------------------ spellings (own statements of the formats)
AUTO_ESC = {'(': '-LRB-', ')': '-RRB-', '{': '-LCB-', '}': '-RCB-', '[': '-LSB-', ']': '-RSB-'}
JA_NORM = {'-LRB-': '(', '-RRB-': ')', '-LSB-': '[', '-RSB-': ']'}   # (curly brackets delimit the format's nodes: their escapes stay)


def auto_word(w):
    if w in AUTO_ESC:
        return AUTO_ESC[w]
    return w.replace('>', '-RAB-').replace('<', '-LAB-')


def jigg_cat(m):
    if m[0] == 'a':
        f = m[2]
        if f is None:
            return m[1]
        if isinstance(f, tuple):
            return f'{m[1]}[{ftxt(f)}]'
        return f'{m[1]}[{f}=true]'

    def w(x):
        return '(' + jigg_cat(x) + ')' if x[0] == 'f' else jigg_cat(x)
    return w(m[1]) + m[2] + w(m[3])


PROLOG_PUNCT = {'.': 'period', ',': 'comma', ':': 'colon', ';': 'semicolon'}


def prolog_en_cat(m):
    if m[0] == 'a':
        b = m[1].lower()
        if b in PROLOG_PUNCT:
            return PROLOG_PUNCT[b]
        f = ftxt(m[2])
        return b if f == '' else f'{b}:{f}'
    return '(' + prolog_en_cat(m[1]) + m[2] + prolog_en_cat(m[3]) + ')'


def prolog_ja_cat(m):
    if m[0] == 'a':
        b = m[1].lower()
        f = dict(m[2]) if isinstance(m[2], tuple) else {}
        return f'{b}:{f["case"].lower()}' if 'case' in f else b
    return '(' + prolog_ja_cat(m[1]) + m[2] + prolog_ja_cat(m[3]) + ')'


# ------------------------------------------------------------------ reference
def ref_tree(d, tokens, cat=canon, word=lambda tk: tk['word'], attrs=(), label=None, head=False, unary_head=True,
             leaf_attr_default=None):
    """project the derivation model d + token dicts to what a format carries.
    label: None | 'string' | 'symbol';  head: carry head flags;  attrs: token keys carried on leaves"""
    it = iter(tokens)

    def rec(x):
        if x[0] == 'L':
            tk = next(it)
            return ('L', cat(x[1]), word(tk), tuple((k, tk.get(k, leaf_attr_default)) for k in attrs))
        if x[0] == 'U':
            lab = None if label is None else (x[3] if label == 'string' else x[4])
            return ('T', cat(x[1]), lab, (unary_head if head else None), (rec(x[2]),))
        lab = None if label is None else (x[4] if label == 'string' else x[5])
        return ('T', cat(x[1]), lab, (bool(x[6]) if head else None), (rec(x[2]), rec(x[3])))
    return rec(d)


def heads_of(d):
    """1-based head index per word (0 = root) implied by the head flags"""
    n = [0]
    heads = {}

    def rec(x):
        if x[0] == 'L':
            i = n[0]
            n[0] += 1
            return i
        if x[0] == 'U':
            return rec(x[2])
        hl = rec(x[2])
        hr = rec(x[3])
        if x[6]:
            heads[hr] = hl
            return hl
        heads[hl] = hr
        return hr
    root = rec(d)
    return [0 if i == root else heads[i] + 1 for i in range(n[0])]


# ------------------------------------------------------------------ line formats: ID headers
def split_records(text, conll=False):
    """[(sentence_index, [lines])] in file order"""
    out = []
    # (a header names the sentence number first; whatever else it carries — rank, score — is not derivation content)
    pat = re.compile(r'^# ID=(\d+)\b.*$' if conll else r'^ID=(\d+)\b.*$')
    lines = text.split('\n')
    i = 0
    while i < len(lines):
        m = pat.match(lines[i])
        if m:
            if conll:
                while i + 1 < len(lines) and lines[i + 1].startswith('#') and not pat.match(lines[i + 1]):
                    i += 1              # further comment lines of the header
            out.append((int(m.group(1)), []))
        elif out:
            out[-1][1].append(lines[i])
        elif lines[i] != '':
            raise DecodeError(f'text before the first record: {lines[i]!r}')
        i += 1
    for _, ls in out:
        while ls and ls[-1] == '':
            ls.pop()
    return out


# ------------------------------------------------------------------ AUTO / AUTO extended
def _auto_tree(line, extended):
    toks = line.split(' ')
    pos = [0]

    def nxt():
        if pos[0] >= len(toks):
            raise DecodeError('unexpected end of AUTO line')
        t = toks[pos[0]]
        pos[0] += 1
        return t

    def node():
        t = nxt()
        if t == '(<L':
            cat = nxt()
            if extended:
                word, lemma, p, entity, chunk = nxt(), nxt(), nxt(), nxt(), nxt()
                attrs = (('lemma', lemma), ('pos', p), ('entity', entity), ('chunk', chunk))
            else:
                p1, p2, word = nxt(), nxt(), nxt()
                if p1 != p2:
                    raise DecodeError('the two POS fields differ')
                attrs = (('pos', p1),)
            last = nxt()
            if last != cat + '>)':
                raise DecodeError(f'leaf does not close with its category: {last!r} vs {cat!r}')
            return ('L', cat, word, attrs)
        if t == '(<T':
            cat = nxt()
            lab = nxt() if extended else None
            h = nxt()
            n = nxt()
            if h not in ('0', '1') or not re.match(r'^[12]>$', n):
                raise DecodeError(f'bad node header {h!r} {n!r}')
            kids = tuple(node() for _ in range(int(n[0])))
            if nxt() != ')':
                raise DecodeError('node not closed')
            return ('T', cat, lab, h == '0', kids)
        raise DecodeError(f'unexpected token {t!r}')
    t = node()
    if pos[0] != len(toks):
        raise DecodeError('trailing text after the tree')
    return t


def decode_auto(text, extended=False):
    out = []
    for si, lines in split_records(text):
        if len(lines) != 1:
            raise DecodeError(f'record of sentence {si} has {len(lines)} lines')
        out.append((si, None, _auto_tree(lines[0], extended)))
    return out


# ------------------------------------------------------------------ CoNLL
def decode_conll(text):
    """records: (sentence, None, tree-from-fragments); also returns per-record rows"""
    out = []
    for si, lines in split_records(text, conll=True):
        rows = []
        frags = []
        for k, ln in enumerate(lines):
            cols = ln.split('\t')
            if len(cols) != 10:
                raise DecodeError(f'conll line with {len(cols)} columns')
            if cols[0] != str(k + 1):
                raise DecodeError('token numbering')
            if cols[3] != cols[4]:
                raise DecodeError('the two part-of-speech columns differ')
            # (FEATS and DEPREL carry nothing of the derivation: whatever stands there is accepted)
            rows.append({'word': cols[1], 'lemma': cols[2], 'pos': cols[3], 'head': int(cols[6]), 'cat': cols[7]})
            frags.append(cols[9])
        tree = _auto_tree(' '.join(frags), False)
        out.append((si, None, (tree, rows)))
    return out


# ------------------------------------------------------------------ JSON
def _json_cat(c):
    """decomposed category object {'slash','left','right'} / {'base','feature'} -> canonical text"""
    if 'slash' in c:
        def w(x):
            t = _json_cat(x)
            return '(' + t + ')' if 'slash' in x else t
        return w(c['left']) + c['slash'] + w(c['right'])
    f = c.get('feature')
    if isinstance(f, dict):
        f = ','.join(f'{k}={v}' for k, v in f.items())
    elif isinstance(f, (list, tuple)):
        f = ','.join(f'{kv[0]}={kv[1]}' if isinstance(kv, (list, tuple)) else str(kv) for kv in f)
    return c['base'] + (f'[{f}]' if f else '')


def decode_json(text, full=False):
    doc = json.loads(text)
    out = []
    for key in doc:
        for ti, tree in enumerate(doc[key], 1):
            if 'log_prob' not in tree:
                raise DecodeError('tree without log_prob')

            def cat(x):
                return _json_cat(x['cat']) if full else x['cat']

            def rec(x):
                if 'children' in x:
                    return ('T', cat(x), x['type'], None, tuple(rec(c) for c in x['children']))
                attrs = tuple(sorted((k, v) for k, v in x.items() if k not in ('cat', 'word', 'log_prob')))
                return ('L', cat(x), x.get('word'), attrs)
            out.append((int(key), ti, rec(tree)))
    return out


# ------------------------------------------------------------------ C&C XML
def decode_xml(text):
    from lxml import etree
    root = etree.fromstring(text.encode('utf-8'))
    if root.tag != 'candc':
        raise DecodeError('root element')
    out = []
    for ccg in root:
        if ccg.tag != 'ccg' or len(ccg) != 1:
            raise DecodeError('ccg element')
        counter = [0]

        def rec(el):
            if el.tag == 'lf':
                if el.get('start') != str(counter[0]) or el.get('span') != '1':
                    raise DecodeError(f'leaf offset start={el.get("start")} at position {counter[0]}')
                counter[0] += 1
                attrs = tuple(sorted((k, v) for k, v in el.attrib.items() if k not in ('start', 'span', 'cat', 'word')))
                return ('L', el.get('cat'), el.get('word'), attrs)
            if el.tag != 'rule':
                raise DecodeError('unexpected element ' + el.tag)
            return ('T', el.get('cat'), el.get('type'), None, tuple(rec(c) for c in el))
        out.append((int(ccg.get('sentence')), int(ccg.get('id')), rec(ccg[0])))
    return out


# ------------------------------------------------------------------ Jigg XML
def decode_jigg(text_or_root):
    from lxml import etree
    root = etree.fromstring(text_or_root.encode('utf-8')) if isinstance(text_or_root, str) else text_or_root
    out = []
    sents = root.xpath('/root/document/sentences/sentence')
    for si, sent in enumerate(sents):
        toks = {}
        order = []
        for k, tk in enumerate(sent.xpath('./tokens/token')):
            # ids are references: unique within the sentence, whatever their spelling; `start` is the position
            if tk.get('id') is None or tk.get('id') in toks or (tk.get('start') is not None and tk.get('start') != str(k)):
                raise DecodeError(f'token id/start {tk.get("id")}/{tk.get("start")} at position {k} of sentence {si}')
            toks[tk.get('id')] = tk
            order.append(tk.get('id'))
        ccg_ids = [c.get('id') for c in sent.xpath('./ccg')]
        if None in ccg_ids or len(set(ccg_ids)) != len(ccg_ids):
            raise DecodeError(f'ccg ids {ccg_ids}')
        for ti, ccg in enumerate(sent.xpath('./ccg')):
            spans = {sp.get('id'): sp for sp in ccg.xpath('./span')}

            def rec(sp):
                b, e = int(sp.get('begin')), int(sp.get('end'))
                if sp.get('terminal') is not None:
                    tk = toks.get(sp.get('terminal'))
                    if tk is None or order.index(sp.get('terminal')) != b or e != b + 1:
                        raise DecodeError('terminal reference / offsets')
                    attrs = tuple(sorted((k, v) for k, v in tk.attrib.items()
                                         if k not in ('id', 'start', 'cat', 'surf')))
                    # (the <token cat=...> copy of the first tree's leaf category is depccg's own addition: compared
                    # when written)
                    extra = (('token_cat', tk.get('cat')),) if tk.get('cat') is not None else ()
                    return ('L', sp.get('category'), tk.get('surf'), attrs + extra), b, e
                kids = []
                cur = b
                for cid in sp.get('child').split():
                    if cid not in spans:
                        raise DecodeError('child reference does not resolve')
                    t, cb, ce = rec(spans[cid])
                    if cb != cur:
                        raise DecodeError('children do not tile the parent')
                    cur = ce
                    kids.append(t)
                if cur != e:
                    raise DecodeError('children do not tile the parent')
                return ('T', sp.get('category'), sp.get('rule'), None, tuple(kids)), b, e
            if ccg.get('root') not in spans:
                raise DecodeError('root reference')
            if any(sp.get('id') != ccg.get('root') for sp in spans.values() if sp.get('root') == 'true'):
                raise DecodeError('root flag on a span that is not the root')
            t, b, e = rec(spans[ccg.get('root')])
            if (b, e) != (0, len(order)):
                raise DecodeError('root span does not cover the sentence')
            out.append((si + 1, ti + 1, t))
    return out


# ------------------------------------------------------------------ PTB
def decode_ptb(text):
    out = []
    for si, lines in split_records(text):
        if len(lines) != 1:
            raise DecodeError('ptb record lines')
        s = lines[0]
        if not (s.startswith('(ROOT ') and s.endswith(')')):
            raise DecodeError('ROOT wrapper')
        pos = [6]

        def node():
            if s[pos[0]] != '(':
                raise DecodeError('expected (')
            pos[0] += 1
            sp = s.index(' ', pos[0])
            cat = s[pos[0]:sp]
            pos[0] = sp + 1
            if s[pos[0]] == '(':
                kids = []
                while True:
                    kids.append(node())
                    if s[pos[0]] == ' ':
                        pos[0] += 1
                        continue
                    if s[pos[0]] == ')':
                        pos[0] += 1
                        break
                    raise DecodeError('child list')
                return ('T', cat, None, None, tuple(kids))
            end = s.index(')', pos[0])
            word = s[pos[0]:end]
            pos[0] = end + 1
            return ('L', cat, word, ())
        t = node()
        if s[pos[0]:] != ')':
            raise DecodeError('trailing text')
        out.append((si, None, t))
    return out


# ------------------------------------------------------------------ Japanese bank format
def decode_ja(text):
    out = []
    for si, lines in split_records(text):
        if len(lines) != 1:
            raise DecodeError('ja record lines')
        s = lines[0]
        pos = [0]

        def node():
            if s[pos[0]] != '{':
                raise DecodeError('expected {')
            pos[0] += 1
            sp = s.index(' ', pos[0])
            first = s[pos[0]:sp]
            pos[0] = sp + 1
            # a node is "{symbol category children}", a leaf "{category word/word/pos/infl}"
            rest_sp = s.find(' ', pos[0])
            close = s.find('}', pos[0])
            if rest_sp != -1 and (close == -1 or rest_sp < close) and s[rest_sp + 1] == '{':
                cat = s[pos[0]:rest_sp]
                pos[0] = rest_sp + 1
                kids = []
                while True:
                    kids.append(node())
                    if s[pos[0]] == ' ':
                        pos[0] += 1
                        continue
                    if s[pos[0]] == '}':
                        pos[0] += 1
                        break
                    raise DecodeError('child list')
                return ('T', cat, first, None, tuple(kids))
            end = s.index('}', pos[0])
            fields = s[pos[0]:end].split('/')
            pos[0] = end + 1
            if len(fields) != 4:            # word / base form / pos / inflection
                raise DecodeError(f'leaf fields {fields}')
            return ('L', first, fields[0], (('pos', fields[2]), ('inflection', fields[3])))
        t = node()
        if pos[0] != len(s):
            raise DecodeError('trailing text')
        out.append((si, None, t))
    return out


def ja_leaf_fields(tk):
    poss = [tk.get(k, '*') for k in ('pos', 'pos1', 'pos2', 'pos3')]
    poss = [p for p in poss if p != '*']
    infl = [tk.get(k, '*') for k in ('inflectionForm', 'inflectionType')]
    infl = [i for i in infl if i != '*']
    return '-'.join(poss) if poss else '_', '-'.join(infl) if infl else '_'


# ------------------------------------------------------------------ ASCII-art derivations
def decode_deriv(text):
    out = []
    for si, lines in split_records(text):
        if len(lines) < 2:
            raise DecodeError('deriv record too short')
        cats_ = lines[0].split()
        words = [(m.start(), m.group()) for m in re.finditer(r'\S+', lines[1])]
        if len(cats_) != len(words):
            raise DecodeError('category line and word line disagree')
        leafq = [(p, p + len(w), ('L', c, w, ())) for (p, w), c in zip(words, cats_)]
        work = []
        i = 2
        while i < len(lines):
            m = re.match(r'^( *)(-+)(.*)$', lines[i])
            if not m or i + 1 >= len(lines):
                raise DecodeError(f'expected a rule line: {lines[i]!r}')
            left = len(m.group(1))
            right = left + len(m.group(2))
            sym = m.group(3).strip()
            cat = lines[i + 1].strip()
            i += 2
            while leafq and leafq[0][0] < right:
                work.append(leafq.pop(0))
            ch = []
            while work and work[-1][0] >= left:
                ch.insert(0, work.pop())
            if not 1 <= len(ch) <= 2:
                raise DecodeError(f'{len(ch)} constituents under one rule line')
            work.append((ch[0][0], right, ('T', cat, sym, None, tuple(c[2] for c in ch))))
        work += leafq
        if len(work) != 1:
            raise DecodeError(f'{len(work)} roots')
        out.append((si, None, work[0][2]))
    return out


# ------------------------------------------------------------------ HTML / MathML
def decode_html(doc):
    from lxml import etree
    out = []
    body = re.split(r'<body\b[^>]*>', doc, maxsplit=1)[1].split('</body>')[0]
    parts = re.split(r'<p>ID=(\d+): (.*?)</p>', body, flags=re.S)
    for k in range(1, len(parts) - 2, 3):
        si = int(parts[k])
        words_line = htmllib.unescape(parts[k + 1])
        chunk = parts[k + 2]
        ti = 0
        for m in re.finditer(r'<p>[^<]*?[Ll]og prob=([^<\s]+)</p>\s*<math\b[^>]*>(.*?)</math>',
                             chunk, re.S):
            ti += 1
            root = etree.fromstring('<math>' + m.group(2) + '</math>')

            def cat_of(mstyle):
                s = ''
                for el in mstyle:
                    if el.tag == 'mi':
                        s += el.text or ''
                    elif el.tag == 'msub':
                        s += (el[0].text or '') + (el[1][0].text or '')
                    else:
                        raise DecodeError('category markup')
                return s

            def rec(mrow):
                mfrac, tail = mrow[0], mrow[1]
                if mfrac[0].tag == 'mtext':
                    if tail.text != 'lex':
                        raise DecodeError('leaf tail')
                    return ('L', cat_of(mfrac[1]), mfrac[0].text or '', ())
                return ('T', cat_of(mfrac[1]), tail.text, None, tuple(rec(c) for c in mfrac[0]))
            out.append((si, ti, rec(root[0]), words_line))
    return out


# ------------------------------------------------------------------ Prolog
def _prolog_terms(text):
    """generic reader: returns list of top-level clause terms; term = ('atom', text) | ('q', text) |
    ('cmp', functor, [args]); categories (operator expressions) are kept as raw text atoms"""
    i = [0]
    n = len(text)

    def ws():
        while i[0] < n:
            if text[i[0]] in ' \n\t\r':
                i[0] += 1
            elif text[i[0]] == '%':                 # a Prolog line comment
                while i[0] < n and text[i[0]] != '\n':
                    i[0] += 1
            else:
                break

    def quoted():
        i[0] += 1
        out = []
        while True:
            if i[0] >= n:
                raise DecodeError('unterminated quoted atom')
            c = text[i[0]]
            if c == '\\':
                if i[0] + 1 >= n:
                    raise DecodeError('dangling backslash')
                nx = text[i[0] + 1]
                if nx in ("'", '\\'):
                    out.append(nx)
                    i[0] += 2
                    continue
                raise DecodeError(f'escape sequence \\{nx} in a quoted atom')
            if c == "'":
                if i[0] + 1 < n and text[i[0] + 1] == "'":
                    out.append("'")         # ISO spelling of a quote inside a quoted atom
                    i[0] += 2
                    continue
                i[0] += 1
                return ''.join(out)
            out.append(c)
            i[0] += 1

    def raw():
        """operator expression / plain atom up to a top-level , or )"""
        start = i[0]
        depth = 0
        while i[0] < n:
            c = text[i[0]]
            if c == '(':
                depth += 1
            elif c == ')':
                if depth == 0:
                    break
                depth -= 1
            elif c == ',' and depth == 0:
                break
            elif c in '\n':
                break
            i[0] += 1
        return text[start:i[0]].strip()

    def term():
        ws()
        if i[0] < n and text[i[0]] == "'":
            return ('q', quoted())
        m = re.compile(r'[a-z][a-zA-Z0-9_]*\(').match(text, i[0])
        if m and not _looks_like_category(text, i[0]):
            f = m.group()[:-1]
            i[0] = m.end()
            args = []
            while True:
                args.append(term())
                ws()
                if i[0] < n and text[i[0]] == ',':
                    i[0] += 1
                    continue
                if i[0] < n and text[i[0]] == ')':
                    i[0] += 1
                    break
                raise DecodeError(f'argument list of {f} at {text[i[0]:i[0] + 20]!r}')
            return ('cmp', f, args)
        r = raw()
        if r == '':
            raise DecodeError(f'empty term at {text[i[0]:i[0] + 20]!r}')
        return ('atom', r)
    clauses = []
    while True:
        ws()
        if i[0] >= n:
            break
        if text.startswith(':-', i[0]):
            j = text.index('\n', i[0])
            i[0] = j + 1
            continue
        t = term()
        ws()
        if i[0] >= n or text[i[0]] != '.':
            raise DecodeError(f'clause not terminated at {text[i[0]:i[0] + 20]!r}')
        i[0] += 1
        clauses.append(t)
    return clauses


def _looks_like_category(text, k):
    return False


def _plain(t):
    if t[0] in ('atom', 'q'):
        return t[1]
    raise DecodeError('expected an atom')


def decode_prolog_en(text):
    out = []
    for cl in _prolog_terms(text):
        if cl[0] != 'cmp' or cl[1] != 'ccg' or len(cl[2]) != 2:
            raise DecodeError('ccg/2 clause expected')
        si = int(_plain(cl[2][0]))

        def rec(t):
            if t[0] != 'cmp':
                raise DecodeError('tree term expected')
            f, a = t[1], t[2]
            if f == 't':
                if len(a) != 6 or any(x[0] != 'q' for x in a[1:]):
                    raise DecodeError('t/6 with quoted atoms expected')
                return ('L', _plain(a[0]), a[1][1], (('lemma', a[2][1]), ('pos', a[3][1]), ('chunk', a[4][1]),
                                                     ('entity', a[5][1])))
            if f == 'lx' and len(a) == 3 and a[2][0] == 'cmp' and a[2][1] == 'lp':
                # left punctuation: lx(Cat, RCat, lp(RCat, L, R))
                inner = a[2][2]
                if len(inner) != 3 or _plain(inner[0]) != _plain(a[1]):
                    raise DecodeError('lp form')
                return ('T', _plain(a[0]), 'lp', None, (rec(inner[1]), rec(inner[2])), ('rcat', _plain(a[1])))
            if f == 'lx':
                if len(a) != 3:
                    raise DecodeError('lx/3')
                return ('T', _plain(a[0]), 'lx', None, (rec(a[2]),), ('childcat', _plain(a[1])))
            if f == 'conj':
                if len(a) != 4:
                    raise DecodeError('conj/4')
                return ('T', _plain(a[0]), 'conj', None, (rec(a[2]), rec(a[3])), ('leftcat', _plain(a[1])))
            if len(a) != 3:
                raise DecodeError(f'{f}/{len(a)}')
            return ('T', _plain(a[0]), f, None, (rec(a[1]), rec(a[2])))
        out.append((si, None, rec(cl[2][1])))
    return out


def decode_prolog_ja(text):
    out = []
    for cl in _prolog_terms(text):
        if cl[0] != 'cmp' or cl[1] != 'ccg' or len(cl[2]) != 2:
            raise DecodeError('ccg/2 clause expected')
        si = int(_plain(cl[2][0]))

        def rec(t):
            if t[0] != 'cmp':
                raise DecodeError('tree term expected')
            f, a = t[1], t[2]
            if f == 't':
                if len(a) != 6 or any(x[0] != 'q' for x in a[1:]):
                    raise DecodeError('t/6 with quoted atoms expected')
                return ('L', _plain(a[0]), a[1][1], (('base', a[2][1]), ('pos', a[3][1]), ('form', a[4][1]),
                                                     ('type', a[5][1])))
            if len(a) not in (2, 3):
                raise DecodeError(f'{f}/{len(a)}')
            return ('T', _plain(a[0]), f, None, tuple(rec(x) for x in a[1:]))
        out.append((si, None, rec(cl[2][1])))
    return out
