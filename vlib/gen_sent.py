"""G-sent: parser inputs (sentence, score matrices, grammar spec, configuration) from a tape.

A case is a JSON-able dict:
  grammar   : table spec (gen_gram.t_table_spec) | {'kind': 'en'|'ja', 'seen': [...]|None, 'unary': [...]}
  tags      : category texts (columns of the tag matrix)
  roots     : category texts
  sentences : [{'words': [...], 'tag': [[...]], 'dep': [[...]]}]
  config    : unary_penalty, beta, use_beta, pruning_size, nbest, max_step, max_length, processes, max_chunk_size
  numeric   : 'dyadic' | 'logsoftmax' | 'flat'
"""
import math

import numpy as np

from vlib import gen_gram, gen_tree
from vlib.model_cat import canon


def f32(x):
    return float(np.float32(x))


def t_row(t, width, numeric, lo_k=64):
    if numeric == 'dyadic':
        return [-t.below(lo_k + 1) / 8 for _ in range(width)]
    logits = [t.below(200) / 20.0 for _ in range(width)]
    m = max(logits)
    z = math.log(sum(math.exp(v - m) for v in logits)) + m
    row = [f32(v - z) for v in logits]
    if numeric == 'flat':
        # category-dictionary style: some cells flattened to the huge negative value, never all of them
        keep = t.below(width)
        row = [v if (i == keep or not t.chance(110)) else f32(-10e+32) for i, v in enumerate(row)]
    return row


def t_sentence(t, n, T, numeric, prefix='w', ties=False):
    if ties:
        tag = [[-1.0] * T for _ in range(n)]
        dep = [[-1.0] * (n + 1) for _ in range(n)]
    else:
        lo = t.pick([8, 24, 64, 128]) if numeric == 'dyadic' else 64
        tag = [t_row(t, T, numeric, lo) for _ in range(n)]
        dnum = 'dyadic' if numeric == 'dyadic' else 'logsoftmax'
        dep = [t_row(t, n + 1, dnum, lo) for _ in range(n)]
    return {'words': [f'{prefix}{i}' for i in range(n)], 'tag': tag, 'dep': dep}


def t_config(t, T, numeric, nbest_max=1, beam='mild'):
    ups = [0.0, 0.125, 0.5] if numeric == 'dyadic' else [0.0, 0.125, 0.5, 0.1]
    cfg = {
        'unary_penalty': t.pick(ups),
        'beta': t.pick([0.00001, 0.01, 0.1, 0.5]),
        'use_beta': t.chance(128),
        'pruning_size': t.int(1, T + 1) if beam != 'off' else T + 1,
        'nbest': t.int(1, nbest_max),
        'max_step': 10000000,
        'max_length': 250,
        'processes': 2,
        'max_chunk_size': 20,
    }
    if beam == 'off':
        cfg['use_beta'] = False
    if beam == 'mild' and t.chance(140):
        cfg['pruning_size'] = T + 1
        cfg['use_beta'] = False
    if beam in ('mild', 'off') and t.chance(40):
        # "no pruning" spelt as a huge value of the unsigned configuration field
        cfg['pruning_size'] = t.pick([2 ** 31 - 1, 2 ** 31, 2 ** 32 - 1, 50, 1000])
    return cfg


def adversarial_rows(t, sent, cfg):
    """place tag scores at log(beta) +/- delta of the best tag and ranks around pruning_size"""
    beta = cfg['beta']
    for row in sent['tag']:
        if not cfg['use_beta'] and t.chance(40):
            # tiny but finite probabilities (exp underflows in float32) competing for the pruning_size slots
            best = t.below(len(row))
            for c in range(len(row)):
                if c != best:
                    row[c] = float(-100 - t.below(41))
            continue
        if cfg['use_beta'] and t.chance(24):
            # a word all of whose probabilities underflow float32 exp() (best log-probability below -92): by the
            # statement the tags within log(beta) of the best are still the only admissible ones
            best = t.below(len(row))
            s0 = float(-93 - t.below(60))
            for c in range(len(row)):
                row[c] = s0 if c == best else t.pick([
                    -1e33, f32(s0 + math.log(beta) - 3), f32(s0 + math.log(beta) + 3), s0 - 0.5, f32(s0 + 2 * math.log(beta))])
            continue
        if not t.chance(170):
            continue
        T = len(row)
        s0 = -t.below(9) / 8
        new = []
        for c in range(T):
            if c == 0:
                new.append(s0)
            elif t.chance(200):
                new.append(min(0.0, f32(s0 + math.log(beta) + t.pick([-3, -0.5, -0.01, 0.01, 0.5, 3]))))
            else:
                new.append(-t.below(65) / 8)
        # permute by the tape
        perm = list(range(T))
        for i in range(T - 1, 0, -1):
            j = t.below(i + 1)
            perm[i], perm[j] = perm[j], perm[i]
        row[:] = [new[p] for p in perm]


def t_repeat_root(t, roots):
    """a root list may name a category twice (--root-cats 'S|NP|S'): a list, not a set, is what callers pass"""
    k = t.tail(0) % 6
    if k == 1:
        return roots + [roots[t.tail(1) % len(roots)]]
    if k == 2:
        return [roots[-1]] + roots
    return roots


def t_warmup(t, case):
    """in a third of the single-sentence cases the sentence is parsed as the last of a call of 2-3 sentences
    (parser_checks.execute builds the others from it)"""
    if len(case['sentences']) == 1 and t.tail(2) % 3 == 0:
        case['warmup'] = 1 + t.tail(3) % 2
    if len(case['sentences']) == 1 and t.tail(4) % 4 == 0:
        # the call takes the multi-process branch of depccg.parsing.run (native.PicklingSyncPool): arguments and
        # results are pickled as between processes
        case['via_pool'] = True


def t_table_case(t, head_modes=('left', 'right'), n_max=5, T_max=4, K_max=7, nbest_max=1,
                 numerics=('dyadic', 'dyadic', 'logsoftmax', 'flat'), beam='mild', multi_label=False,
                 n_sentences=1):
    head_mode = t.pick(list(head_modes))
    K = t.int(3, K_max)
    spec = gen_gram.t_table_spec(t, head_mode, K, multi_label)
    T = t.int(2, min(K, T_max))
    numeric = t.pick(list(numerics))
    roots = [c for i, c in enumerate(spec['cats']) if t.chance(120)] or [spec['cats'][t.below(K)]]
    cfg = t_config(t, T, numeric, nbest_max, beam)
    sents = []
    for k in range(n_sentences):
        n = t.int(1, n_max)
        s = t_sentence(t, n, T, numeric, prefix=f's{k}w')
        if beam == 'adversarial':
            adversarial_rows(t, s, cfg)
            if numeric == 'dyadic':
                numeric = 'dyadic+offsets'      # rows moved by log(beta) +/- delta are no longer dyadic: tolerance
        sents.append(s)
    roots = t_repeat_root(t, roots)
    case = {'grammar': spec, 'tags': spec['cats'][:T], 'roots': roots, 'sentences': sents, 'config': cfg,
            'numeric': numeric, 'head_mode': head_mode}
    t_warmup(t, case)
    return case


_DISTRACTORS = {}


def t_real_case(t, lang, n_max=5, nbest_max=1, numerics=('dyadic', 'dyadic', 'logsoftmax'), beam='mild',
                with_seen=None):
    """sentence over the real grammar: the leaf sequence of a licensed derivation (so a parse exists)
    plus distractor categories and noisy scores, or random leaf categories (mostly unparseable)"""
    idx = gen_tree.rule_index(lang)
    numeric = t.pick(list(numerics))
    d = gen_tree.t_derivation(t, idx, max_leaves=n_max)
    gold = gen_tree.leaves_of(d)
    random_leaves = t.chance(40)
    if random_leaves:
        gold = [t.pick(idx.targets) for _ in gold]
    n = len(gold)
    tags = list(dict.fromkeys(gold))
    for _ in range(t.int(1, 6)):
        c = t.pick(idx.targets)
        if c not in tags:
            tags.append(c)
    T = len(tags)
    sent = t_sentence(t, n, T, numeric, prefix='r')
    for i, g in enumerate(gold):
        col = tags.index(g)
        if numeric == 'dyadic':
            sent['tag'][i][col] = -t.below(9) / 8
        else:
            sent['tag'][i][col] = max(sent['tag'][i]) if t.chance(200) else sent['tag'][i][col]
    root = d[1]
    roots = [root] + [c for c in idx.root_candidates[:12] if t.chance(60) and c != root]
    if t.chance(30):
        roots = roots[1:] or roots
    roots = t_repeat_root(t, roots)
    cfg = t_config(t, T, numeric, nbest_max, beam)
    cfg['pruning_size'] = min(cfg['pruning_size'], t.int(2, 4))
    use_seen = with_seen if with_seen is not None else t.chance(128)
    spec = {'kind': lang, 'seen': None, 'unary': idx.unary_spec()}
    if use_seen:
        spec['seen'] = 'shipped'
    case = {'grammar': spec, 'tags': [canon(c) for c in tags], 'roots': [canon(c) for c in roots],
            'sentences': [sent], 'config': cfg, 'numeric': numeric,
            'head_mode': 'left' if lang == 'en' else 'right', 'gold_parse_exists': not random_leaves}
    t_spread_tags(t, case, tags, idx)
    t_warmup(t, case)
    return case


def t_spread_tags(t, case, tags, idx):
    """in a third of the real-grammar cases the tag list is the sentence's tags scattered among 33-160 other
    categories of the inventory with far lower scores (the parser is normally handed the whole inventory, so
    category ids are spread over hundreds of values and rule-made categories get ids beyond them); positions are a
    pure function of the tail of the tape"""
    if t.tail(5) % 3 != 0:
        return
    import random
    rnd = random.Random(bytes(t.tail(k) for k in range(5, 13)))
    have = set(tags)
    pool = [c for c in idx.targets if c not in have]
    P = min(len(pool), 33 + t.tail(6) % 128)
    pads = rnd.sample(pool, P)
    total = P + len(tags)
    pos = sorted(rnd.sample(range(total), len(tags)))
    order = [None] * total
    for p, c in zip(pos, range(len(tags))):
        order[p] = c
    it = iter(pads)
    new_tags, src = [], []
    for slot in order:
        if slot is None:
            new_tags.append(next(it)); src.append(None)
        else:
            new_tags.append(tags[slot]); src.append(slot)
    dyadic = case['numeric'].startswith('dyadic')
    for sent in case['sentences']:
        rows = []
        for row in sent['tag']:
            lo = min(v for v in row if v > -1e30) if any(v > -1e30 for v in row) else 0.0
            rows.append([row[sc] if sc is not None else
                         ((math.floor(lo) - 16 - (j % 4) / 8) if dyadic else f32(lo - 20 - (j % 4)))
                         for j, sc in enumerate(src)])
        sent['tag'] = rows
    case['tags'] = [canon(c) for c in new_tags]
    case['spread'] = total


def resolve_grammar_spec(spec):
    """expand the 'shipped' marker of real grammar specs"""
    if spec['kind'] in ('en', 'ja') and spec.get('seen') == 'shipped':
        from vlib import inventory
        spec = dict(spec)
        spec['seen'] = [list(p) for p in inventory.seen_rules(spec['kind'])]
    return spec


def t_long_case(t):
    """a sentence longer than 256 tokens over a comb grammar (one derivation shape per span, so the search stays
    quadratic): exercises token / head indices beyond one byte and max_length above the default"""
    n = t.int(257, 300)
    right_branching = t.chance(128)
    head_left = t.chance(128)
    if right_branching:
        binary = [[0, 1, [[1, 'l0', 's0', head_left]]], [0, 0, [[1, 'l1', 's1', head_left]]]]
    else:
        binary = [[1, 0, [[1, 'l0', 's0', head_left]]], [0, 0, [[1, 'l1', 's1', head_left]]]]
    spec = {'kind': 'table', 'cats': ['A', 'B'], 'binary': binary, 'unary': [],
            'head_mode': 'left' if head_left else 'right'}
    tag = [[-t.below(17) / 8] for _ in range(n)]
    # dependency scores from a table indexed modulo a prime, so that rows / columns 256 apart differ
    base = [-t.below(65) / 8 for _ in range(61)]
    off = t.below(61)
    dep = [[base[(i * 7 + j * 13 + (i * j) % 5 + off) % 61] for j in range(n + 1)] for i in range(n)]
    cfg = {'unary_penalty': 0.125, 'beta': 0.00001, 'use_beta': False, 'pruning_size': 50, 'nbest': 1,
           'max_step': 10000000, 'max_length': 400, 'processes': 2, 'max_chunk_size': 20}
    sent = {'words': [f'w{i}' for i in range(n)], 'tag': tag, 'dep': dep}
    return {'grammar': spec, 'tags': ['A'], 'roots': ['B'], 'sentences': [sent], 'config': cfg, 'numeric': 'dyadic',
            'head_mode': spec['head_mode'], 'long': True}
