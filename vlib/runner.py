"""Runner conventions shared by every check (DESIGN.md section 6).

A check module exposes

    PROPERTY = 'C13'
    def run(ctx)            # explore; report through ctx
    def replay(case) -> [(key, message), ...]   # plain re-check of one saved case

`Ctx` counts cases, keeps samples, maps failures to finding keys, honours
known_findings.json, writes replay files and the evidence file, and decides the
exit code (0 held / 1 violation / 2 harness error).
"""
import collections
import hashlib
import json
import multiprocessing
import os
import sys
import time
import traceback

from vlib import env

EVIDENCE_DIR = os.environ.get('VERIF_EVIDENCE_DIR') or os.path.join(env.VERIF, 'evidence')
REPLAY_DIR = (os.path.join(os.environ['VERIF_EVIDENCE_DIR'], 'replays') if os.environ.get('VERIF_EVIDENCE_DIR')
              else os.path.join(env.VERIF, 'replays'))
CORPUS_DIR = os.path.join(env.VERIF, 'corpus')
KNOWN_FILE = os.path.join(env.VERIF, 'known_findings.json')

MAX_NEW_KEYS = 5


class Violation(Exception):
    """raised inside a generated test for a failure that is not a listed finding"""

    def __init__(self, key, msg, case):
        super().__init__(f'{key}: {msg}')
        self.key = key
        self.msg = msg
        self.case = case


class HarnessError(Exception):
    pass


def digest(obj):
    s = json.dumps(obj, sort_keys=True, default=str, ensure_ascii=False)
    return int.from_bytes(hashlib.sha1(s.encode('utf-8', 'surrogatepass')).digest()[:8], 'big')


def load_known(prop):
    """open findings of this property: key -> entry"""
    if not os.path.exists(KNOWN_FILE):
        return {}
    with open(KNOWN_FILE) as f:
        data = json.load(f)
    return {e['key']: e for e in data.get('findings', [])
            if e.get('property') == prop and e.get('status') == 'open'}


class Ctx:
    def __init__(self, prop, tier, seed, shard=0):
        self.prop = prop
        self.tier = tier
        self.seed = seed
        self.shard = shard
        self.known = load_known(prop)
        self.evaluations = 0
        self.nontrivial = set()
        self.classes = collections.Counter()
        self.samples = {}
        self.unspecified = collections.Counter()
        self.known_hits = collections.Counter()
        self.known_examples = {}
        self.violations = []          # dicts: key, msg, case
        self.excluded = set()         # keys already reported in this run
        self.target_key = None
        self.notes = {}
        self.exhaustive = None
        self.inconclusive = []
        self.shrink_deadline = None
        self.best_fail_digest = None
        self.t0 = time.time()

    # ------------------------------------------------------------ counting
    @property
    def quick(self):
        return self.tier == 'quick'

    def scale(self, quick, thorough):
        return quick if self.quick else thorough

    def case(self, ident, nontrivial, cls=None, sample=None):
        """count one executed case. `ident` identifies the case (any JSON-able
        value); it is hashed only when the case is non-trivial."""
        self.evaluations += 1
        if isinstance(ident, dict) and ident.get('warmup'):
            # parser cases whose sentence is parsed after other sentences of the same call (parser_checks.execute)
            self.classes['(sentence not first in its call)'] += 1
        if isinstance(ident, dict) and ident.get('via_pool'):
            self.classes['(through the multi-process branch, pickled arguments and results)'] += 1
        if cls is not None:
            self.classes[cls] += 1
        if nontrivial:
            self.nontrivial.add(digest(ident))
        if sample is not None:
            k = cls if cls is not None else '_'
            lst = self.samples.setdefault(k, [])
            entry = {'nontrivial': bool(nontrivial), **sample} if isinstance(sample, dict) else sample
            if len(lst) < 2 and len(self.samples) <= 40:
                lst.append(entry)
            elif nontrivial and isinstance(entry, dict):
                # prefer showing non-trivial cases (Hypothesis starts from the simplest inputs)
                for i, old in enumerate(lst):
                    if isinstance(old, dict) and not old.get('nontrivial', True):
                        lst[i] = entry
                        break

    def count(self, n=1, cls=None):
        self.evaluations += n
        if cls is not None:
            self.classes[cls] += n

    def unspec(self, what):
        self.unspecified[what] += 1

    # ------------------------------------------------------------ failures
    def report(self, fails, case):
        """`fails`: list of (key, message). Known open findings are counted and
        excluded; anything else raises Violation (for Hypothesis to shrink)."""
        for key, msg in fails:
            if key in self.known:
                self.known_hits[key] += 1
                self.known_examples.setdefault(key, msg)
                continue
            if key in self.excluded:
                continue
            if self.target_key is None:
                self.target_key = key
            if key != self.target_key:
                continue
            if self.shrink_deadline is None:
                self.shrink_deadline = time.time() + (45 if self.quick else 180)
            d = digest(case)
            if time.time() > self.shrink_deadline and d != self.best_fail_digest:
                # shrinking budget used up: accept no further shrinks
                continue
            self.best_fail_digest = d
            raise Violation(key, msg, case)

    def report_direct(self, fails, case):
        """for sweeps that are minimal by construction (no shrinking)"""
        for key, msg in fails:
            if key in self.known:
                self.known_hits[key] += 1
                self.known_examples.setdefault(key, msg)
            elif key not in self.excluded:
                if len([v for v in self.violations]) < MAX_NEW_KEYS:
                    self.excluded.add(key)
                    self.violations.append({'key': key, 'msg': msg, 'case': case})

    def hypothesis(self, test_factory, name=''):
        """run a Hypothesis test (built by test_factory()) with collect-then-shrink:
        after a new finding key is shrunk and recorded, run again with that key
        excluded so that one shallow defect does not hide the next."""
        import hypothesis.errors as herr
        for _ in range(MAX_NEW_KEYS):
            self.target_key = None
            self.shrink_deadline = None
            self.best_fail_digest = None
            test = test_factory()
            try:
                test()
                return
            except Violation as v:
                self.excluded.add(v.key)
                self.violations.append({'key': v.key, 'msg': v.msg, 'case': v.case})
            except herr.Flaky as e:
                v = _find_violation(e)
                if v is None:
                    raise
                self.excluded.add(v.key)
                self.violations.append({'key': v.key, 'msg': v.msg + ' [flaky under shrinking]',
                                        'case': v.case})
            except BaseExceptionGroup as e:  # noqa: F821 (py311+)
                v = _find_violation(e)
                if v is None:
                    raise
                self.excluded.add(v.key)
                self.violations.append({'key': v.key, 'msg': v.msg, 'case': v.case})

    # ------------------------------------------------------------ merging
    def export(self):
        return {
            'evaluations': self.evaluations, 'nontrivial': self.nontrivial,
            'classes': self.classes, 'samples': self.samples,
            'unspecified': self.unspecified, 'known_hits': self.known_hits,
            'known_examples': self.known_examples, 'violations': self.violations,
            'notes': self.notes, 'inconclusive': self.inconclusive,
        }

    def merge(self, d):
        self.evaluations += d['evaluations']
        self.nontrivial |= d['nontrivial']
        self.classes.update(d['classes'])
        for k, v in d['samples'].items():
            lst = self.samples.setdefault(k, [])
            for s in v:
                if len(lst) < 2:
                    lst.append(s)
        self.unspecified.update(d['unspecified'])
        self.known_hits.update(d['known_hits'])
        for k, v in d['known_examples'].items():
            self.known_examples.setdefault(k, v)
        for v in d['violations']:
            if v['key'] not in self.excluded:
                self.excluded.add(v['key'])
                self.violations.append(v)
        for k, v in d['notes'].items():
            if isinstance(v, (int, float)) and isinstance(self.notes.get(k), (int, float)):
                self.notes[k] += v
            elif isinstance(v, dict) and isinstance(self.notes.get(k), dict):
                for kk, vv in v.items():
                    if isinstance(vv, (int, float)):
                        self.notes[k][kk] = self.notes[k].get(kk, 0) + vv
                    else:
                        self.notes[k].setdefault(kk, vv)
            else:
                self.notes.setdefault(k, v)
        self.inconclusive += d['inconclusive']

    def shards(self, fn, n, *args):
        """run fn(child_ctx, shard_index, *args) in n forked processes and merge."""
        if n <= 1:
            fn(self, 0, *args)
            return
        # non-daemonic workers (a check may itself start worker processes, e.g. depccg.parsing.run)
        import concurrent.futures
        mp = multiprocessing.get_context('fork')
        with concurrent.futures.ProcessPoolExecutor(max_workers=n, mp_context=mp) as pool:
            futs = [pool.submit(_shard_entry, fn, self.prop, self.tier, self.seed, i, args) for i in range(n)]
            outs = [f.result() for f in futs]
        for o in outs:
            if 'error' in o:
                raise HarnessError('shard failed:\n' + o['error'])
            self.merge(o)

    # ------------------------------------------------------------ finishing
    def finish(self, rule, level='exploration', assumptions=()):
        wall = time.time() - self.t0
        lines = []
        for key, n in sorted(self.known_hits.items()):
            e = self.known[key]
            lines.append(f"KNOWN-FINDING: property={self.prop} {key} — {e.get('what', '')} "
                         f"[{n} occurrence(s) this run; e.g. {str(self.known_examples.get(key))[:160]}]")
        vio_lines = []
        os.makedirs(REPLAY_DIR, exist_ok=True)
        for v in self.violations:
            body = {'property': self.prop, 'key': v['key'], 'message': v['msg'], 'case': v['case'],
                    'seed': self.seed, 'tier': self.tier}
            sha = hashlib.sha1(json.dumps(body, sort_keys=True, default=str).encode()).hexdigest()[:12]
            path = os.path.join(REPLAY_DIR, f'{self.prop}-{sha}.json')
            with open(path, 'w') as f:
                json.dump(body, f, indent=1, default=str, ensure_ascii=False)
            vio_lines.append(f'VIOLATION property={self.prop} replay={path}')
            lines.append(f"  finding key: {v['key']}\n  {str(v['msg'])[:600]}")
            lines.append(vio_lines[-1])
        samples = []
        for k in sorted(self.samples, key=str):
            for s in self.samples[k]:
                samples.append({'class': k, 'case': s})
        samples = samples[:24]
        cov = {
            'evaluations': int(self.evaluations),
            'distinct_nontrivial': len(self.nontrivial),
            'rule': rule,
            'samples': samples,
            'classes': {str(k): v for k, v in sorted(self.classes.items(), key=lambda kv: str(kv[0]))},
            'unspecified_by_statement': dict(self.unspecified),
            'known_finding_exclusions': dict(self.known_hits),
        }
        if self.exhaustive is not None:
            cov['exhaustive'] = True
            cov['exhaustive_space'] = self.exhaustive
        for k, v in self.notes.items():
            cov[k] = v
        if self.inconclusive:
            cov['inconclusive'] = self.inconclusive[:10]
        ev = {
            'property_id': self.prop, 'tier': self.tier, 'seed': int(self.seed), 'level': level,
            'coverage': cov, 'assumptions': list(assumptions), 'wall_s': round(wall, 2),
            'violations': len(self.violations),
        }
        os.makedirs(EVIDENCE_DIR, exist_ok=True)
        with open(os.path.join(EVIDENCE_DIR, f'{self.prop}.json'), 'w') as f:
            json.dump(ev, f, indent=1, default=str, ensure_ascii=False)
        for ln in lines:
            print(ln)
        print(f'{self.prop} {self.tier} seed={self.seed}: {self.evaluations} cases, '
              f'{len(self.nontrivial)} distinct non-trivial, {len(self.violations)} violation(s), '
              f'{sum(self.known_hits.values())} known-finding hits, {wall:.1f}s')
        sys.stdout.flush()
        return 1 if self.violations else 0


class OutOfDomain(Exception):
    """raised by a generator / builder when the library refuses to construct a value the statement does not
    promise to be constructible (e.g. a three-part feature with a repeated key): the case is dropped"""


OUT_OF_DOMAIN = [0]


def guarded(prop):
    """decorator for per-case check functions: an exception escaping from the code under test
    (rather than being judged by the check) is itself reported as a failure of that case"""
    def deco(fn):
        import functools

        @functools.wraps(fn)
        def wrapper(*a, **k):
            try:
                return fn(*a, **k)
            except (Violation, HarnessError, KeyboardInterrupt):
                raise
            except OutOfDomain:
                OUT_OF_DOMAIN[0] += 1
                return []
            except BaseException as ex:  # noqa
                tb = traceback.extract_tb(ex.__traceback__)
                where = next((f'{os.path.basename(fr.filename)}:{fr.name}' for fr in reversed(tb)
                              if '/depccg/' in fr.filename), None)
                if where is None:
                    # no frame of the library in the traceback: the harness tripped over itself (an attribute it
                    # reaches for has moved, a stand-in lacks a method): that decides nothing about the property
                    raise HarnessError(f'{prop}: {type(ex).__name__}: {ex} (raised in the harness: '
                                       f'{tb[-1].filename}:{tb[-1].lineno})') from ex
                return [(f'{prop}/unexpected-exception/{type(ex).__name__}@{where}',
                         f'{type(ex).__name__}: {ex}')]
        return wrapper
    return deco


def _find_violation(exc):
    if isinstance(exc, Violation):
        return exc
    for sub in getattr(exc, 'exceptions', []) or []:
        v = _find_violation(sub)
        if v is not None:
            return v
    for attr in ('__cause__', '__context__'):
        sub = getattr(exc, attr, None)
        if sub is not None and sub is not exc:
            v = _find_violation(sub)
            if v is not None:
                return v
    return None


def _shard_entry(fn, prop, tier, seed, i, args):
    try:
        c = Ctx(prop, tier, seed, shard=i)
        fn(c, i, *args)
        return c.export()
    except BaseException:
        return {'error': traceback.format_exc()}
    finally:
        env.cleanup_tempdirs()


def hsettings(max_examples, **kw):
    from hypothesis import settings, HealthCheck, Phase
    base = dict(phases=[Phase.explicit, Phase.reuse, Phase.generate, Phase.target, Phase.shrink],
                max_examples=max_examples, database=None, deadline=None, derandomize=False,
                report_multiple_bugs=False, suppress_health_check=list(HealthCheck),
                print_blob=False)
    base.update(kw)
    return settings(**base)


def hseed(ctx, salt=0):
    return (int(ctx.seed) * 1000003 + ctx.shard * 7919 + salt) & 0x7FFFFFFF


def corpus_cases(prop):
    d = os.path.join(CORPUS_DIR, prop)
    if not os.path.isdir(d):
        return []
    out = []
    for fn in sorted(os.listdir(d)):
        if fn.endswith('.json'):
            with open(os.path.join(d, fn)) as f:
                out.append((fn, json.load(f)))
    return out
