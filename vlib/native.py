"""Driving the real parser (depccg.parsing.run -> translated parsing.pyx -> compiled parsing.h)."""
import os

import numpy as np

from vlib import env, pyxlite
from vlib.runner import HarnessError

_rt = None


def setup():
    """build from the working tree and import depccg.parsing (unmodified)"""
    global _rt
    if _rt is not None:
        return _rt
    try:
        mod, rt = pyxlite.build(env.REPO)
        import depccg.parsing  # noqa: F401
    except pyxlite.BuildError as e:
        raise HarnessError(f'cannot build the parser from the working tree: {e}')
    _rt = rt
    return rt


class PopTrace:
    """records every agenda pop through the guarded repo hook"""

    def __init__(self):
        self.rt = setup()
        self.pops = []
        self.enabled = False

    def __enter__(self):
        if self.rt.have_hook:
            os.environ[env.GUARD] = '1'
            pops = self.pops

            def cb(it):
                pops.append((bool(it.fin), float(it.in_score), float(it.out_score), int(it.start_of_span),
                             int(it.span_length), int(it.cat), int(it.head_id)))
            self.rt.set_pop_hook(cb)
            self.enabled = True
        return self

    def __exit__(self, *a):
        if self.enabled:
            self.rt.set_pop_hook(None)
            os.environ.pop(env.GUARD, None)


def arrays(sent):
    tag = np.ascontiguousarray(np.array(sent['tag'], dtype=np.float32))
    dep = np.ascontiguousarray(np.array(sent['dep'], dtype=np.float32))
    return tag, dep


def tokens_of(sent):
    from depccg.types import Token
    return [Token.of_word(w) for w in sent['words']]


class _Done:
    def __init__(self, blob):
        self.blob = blob

    def ready(self):
        return True

    def successful(self):
        return True

    def wait(self, timeout=None):
        return None

    def get(self, timeout=None):
        import pickle
        return pickle.loads(self.blob)


class PicklingSyncPool:
    """stands in for multiprocessing.Pool in depccg.parsing: every task runs at once in this process, but its
    arguments and its result cross a pickle boundary exactly as they would between processes.  The code under
    test is unmodified and takes its multi-process branch (chunking, task order, joining of results) without
    forking or sleeping, so that branch can be exercised thousands of times."""

    def __init__(self, processes=None, *a, **k):
        self.processes = processes

    def __enter__(self):
        return self

    def __exit__(self, *a):
        return False

    def apply_async(self, func, args=(), kwds={}, callback=None, error_callback=None):
        import pickle
        a2, k2 = pickle.loads(pickle.dumps((args, kwds)))
        res = func(*a2, **k2)
        if callback is not None:
            callback(res)
        return _Done(pickle.dumps(res))

    def close(self):
        pass

    def join(self):
        pass

    def terminate(self):
        pass


def run_parser(case, grammar, sentences=None, via_pool=False, **override):
    """one call of depccg.parsing.run over the sentences of the case; returns (results, faults)
    faults: exceptions swallowed by noexcept callbacks / undefined behaviour surfaced by the shim.
    via_pool: force the multi-process branch of depccg.parsing.run, served by PicklingSyncPool"""
    import depccg.parsing
    from depccg.cat import Category
    from depccg.types import ScoringResult
    rt = setup()
    sents = case['sentences'] if sentences is None else sentences
    docs = [tokens_of(s) for s in sents]
    scores = []
    for s in sents:
        tag, dep = arrays(s)
        scores.append(ScoringResult(tag, dep))
    cats = [Category.parse(c) for c in case['tags']]
    roots = [Category.parse(c) for c in case['roots']]
    cfg = dict(case['config'])
    cfg.update(override)
    del rt.unraisable[:]
    del rt.faults[:]
    if via_pool:
        real_pool = depccg.parsing.Pool
        depccg.parsing.Pool = PicklingSyncPool
        cfg['max_chunk_size'] = 0
        try:
            results = depccg.parsing.run(docs, scores, cats, roots, grammar.binary, grammar.unary, **cfg)
        finally:
            depccg.parsing.Pool = real_pool
    else:
        results = depccg.parsing.run(docs, scores, cats, roots, grammar.binary, grammar.unary, **cfg)
    faults = [f'{type(e).__name__}: {e}' for e in rt.unraisable] + list(rt.faults)
    return results, docs, faults


def snap(tree):
    """M-tree: structural snapshot of a Tree"""
    if tree.is_leaf:
        return ('L', str(tree.cat), dict(tree.token))
    if tree.is_unary:
        return ('U', str(tree.cat), tree.op_string, tree.op_symbol, snap(tree.children[0]))
    return ('B', str(tree.cat), tree.op_string, tree.op_symbol, bool(tree.head_is_left),
            snap(tree.children[0]), snap(tree.children[1]))


def is_placeholder(trees):
    """exactly the documented failure placeholder: one FAILED/NP leaf with score -inf"""
    if len(trees) != 1:
        return False
    t, s = trees[0].tree, trees[0].score
    return (t.is_leaf and str(t.cat) == 'NP' and dict(t.token) == {'word': 'FAILED'}
            and s == float('-inf'))
