"""Driving the real parser (depccg.parsing.run -> translated parsing.pyx -> compiled parsing.h)."""
import os

import numpy as np

from vlib import env, pyxlite
from vlib.runner import HarnessError

_rt = None


def setup():
    """build from the working tree and import depccg.parsing (unmodified)"""
    global _rt
    if _rt is not None:
        return _rt
    try:
        mod, rt = pyxlite.build(env.REPO)
        import depccg.parsing  # noqa: F401
    except pyxlite.BuildError as e:
        raise HarnessError(f'cannot build the parser from the working tree: {e}')
    _rt = rt
    return rt


class PopTrace:
    """records every agenda pop through the guarded repo hook"""

    def __init__(self):
        self.rt = setup()
        self.pops = []
        self.enabled = False

    def __enter__(self):
        if self.rt.have_hook:
            os.environ[env.GUARD] = '1'
            pops = self.pops

            def cb(it):
                pops.append((bool(it.fin), float(it.in_score), float(it.out_score), int(it.start_of_span),
                             int(it.span_length), int(it.cat), int(it.head_id)))
            self.rt.set_pop_hook(cb)
            self.enabled = True
        return self

    def __exit__(self, *a):
        if self.enabled:
            self.rt.set_pop_hook(None)
            os.environ.pop(env.GUARD, None)


def arrays(sent):
    tag = np.ascontiguousarray(np.array(sent['tag'], dtype=np.float32))
    dep = np.ascontiguousarray(np.array(sent['dep'], dtype=np.float32))
    return tag, dep


def tokens_of(sent):
    from depccg.types import Token
    return [Token.of_word(w) for w in sent['words']]


class _Done:
    def __init__(self, blob):
        self.blob = blob

    def ready(self):
        return True

    def successful(self):
        return True

    def wait(self, timeout=None):
        return None

    def get(self, timeout=None):
        import pickle
        return pickle.loads(self.blob)


USED = [0]      # tasks served by PicklingSyncPool (tells whether a call really took the pooled branch)


class pool_installed:
    """context manager: make depccg.parsing use `pool_cls` wherever it gets its Pool from — the name it imported
    (`from multiprocessing import Pool`) and the `multiprocessing` / `multiprocessing.pool` modules themselves"""

    def __init__(self, pool_cls):
        self.pool_cls = pool_cls
        self.saved = []

    def __enter__(self):
        import multiprocessing
        import multiprocessing.pool
        import depccg.parsing
        for mod in (depccg.parsing, multiprocessing, multiprocessing.pool):
            if hasattr(mod, 'Pool'):
                self.saved.append((mod, mod.Pool))
                mod.Pool = self.pool_cls
        return self

    def __exit__(self, *a):
        for mod, old in self.saved:
            mod.Pool = old
        return False


class PicklingSyncPool:
    """stands in for multiprocessing.Pool in depccg.parsing: every task runs at once in this process, but its
    arguments and its result cross a pickle boundary exactly as they would between processes.  The code under
    test is unmodified and takes its multi-process branch (chunking, task order, joining of results) without
    forking or sleeping, so that branch can be exercised thousands of times."""

    def __init__(self, processes=None, initializer=None, initargs=(), *a, **k):
        self.processes = processes
        if initializer is not None:
            # what every worker process would do once at start-up (a forked worker inherits the arguments)
            initializer(*tuple(initargs))

    def __enter__(self):
        return self

    def __exit__(self, *a):
        return False

    def _call(self, func, args=(), kwds=None):
        import pickle
        a2, k2 = pickle.loads(pickle.dumps((tuple(args), dict(kwds or {}))))
        USED[0] += 1
        return pickle.dumps(func(*a2, **k2))

    def apply_async(self, func, args=(), kwds={}, callback=None, error_callback=None):
        import pickle
        blob = self._call(func, args, kwds)
        if callback is not None:
            callback(pickle.loads(blob))
        return _Done(blob)

    def apply(self, func, args=(), kwds={}):
        import pickle
        return pickle.loads(self._call(func, args, kwds))

    def map(self, func, iterable, chunksize=None):
        import pickle
        return [pickle.loads(self._call(func, (x,))) for x in iterable]

    def imap(self, func, iterable, chunksize=1):
        return iter(self.map(func, iterable))

    imap_unordered = imap

    def starmap(self, func, iterable, chunksize=None):
        import pickle
        return [pickle.loads(self._call(func, tuple(x))) for x in iterable]

    def map_async(self, func, iterable, chunksize=None, callback=None, error_callback=None):
        import pickle
        res = self.map(func, iterable)
        if callback is not None:
            callback(res)
        return _Done(pickle.dumps(res))

    def starmap_async(self, func, iterable, chunksize=None, callback=None, error_callback=None):
        import pickle
        res = self.starmap(func, iterable)
        if callback is not None:
            callback(res)
        return _Done(pickle.dumps(res))

    def close(self):
        pass

    def join(self):
        pass

    def terminate(self):
        pass


def check_harness_faults(reset=False):
    """raise HarnessError if the emulation was asked for something it does not emulate since the last reset"""
    rt = setup()
    if reset:
        del rt.harness_faults[:]
        return
    if rt.harness_faults:
        msg = '; '.join(rt.harness_faults[:3])
        del rt.harness_faults[:]
        raise HarnessError('the emulation of parsing.pyx was asked for an operation it does not emulate: ' + msg)


def run_parser(case, grammar, sentences=None, via_pool=False, **override):
    """one call of depccg.parsing.run over the sentences of the case; returns (results, faults)
    faults: exceptions swallowed by noexcept callbacks / undefined behaviour surfaced by the shim.
    via_pool: force the multi-process branch of depccg.parsing.run, served by PicklingSyncPool"""
    import depccg.parsing
    from depccg.cat import Category
    from depccg.types import ScoringResult
    rt = setup()
    sents = case['sentences'] if sentences is None else sentences
    docs = [tokens_of(s) for s in sents]
    scores = []
    for s in sents:
        tag, dep = arrays(s)
        scores.append(ScoringResult(tag, dep))
    cats = [Category.parse(c) for c in case['tags']]
    roots = [Category.parse(c) for c in case['roots']]
    cfg = dict(case['config'])
    cfg.update(override)
    del rt.unraisable[:]
    del rt.faults[:]
    def call(roots_):
        if via_pool and len(docs) >= 2:
            # (more sentences than max_chunk_size = 1: the multi-process branch)
            cfg['max_chunk_size'] = 1
            with pool_installed(PicklingSyncPool):
                return depccg.parsing.run(docs, scores, cats, roots_, grammar.binary, grammar.unary, **cfg)
        return depccg.parsing.run(docs, scores, cats, roots_, grammar.binary, grammar.unary, **cfg)
    del rt.harness_faults[:]
    try:
        results = call(roots)
    except HarnessError:
        raise
    except Exception:
        if rt.harness_faults:
            raise HarnessError('the emulation of parsing.pyx was asked for an operation it does not emulate: '
                               + '; '.join(rt.harness_faults[:3]))
        if len(set(roots)) < len(roots):
            # a root named twice is accepted today; a library that refuses it (as it refuses repeated categories)
            # breaks no statement: if the call goes through without the repetition the case is out of the domain
            from vlib.runner import OutOfDomain
            try:
                call(list(dict.fromkeys(roots)))
            except Exception:
                pass
            else:
                raise OutOfDomain('repeated root categories are refused')
        raise
    if rt.harness_faults:
        raise HarnessError('the emulation of parsing.pyx was asked for an operation it does not emulate: '
                           + '; '.join(rt.harness_faults[:3]))
    faults = [f'{type(e).__name__}: {e}' for e in rt.unraisable] + list(rt.faults)
    return results, docs, faults


def snap(tree):
    """M-tree: structural snapshot of a Tree"""
    if tree.is_leaf:
        return ('L', str(tree.cat), dict(tree.token))
    if tree.is_unary:
        return ('U', str(tree.cat), tree.op_string, tree.op_symbol, snap(tree.children[0]))
    return ('B', str(tree.cat), tree.op_string, tree.op_symbol, bool(tree.head_is_left),
            snap(tree.children[0]), snap(tree.children[1]))


def is_placeholder(trees):
    """the failure placeholder: a single one-leaf tree over the word FAILED with score -inf (which other token
    attributes or which category the leaf carries is not part of any statement)"""
    if len(trees) != 1:
        return False
    t, s = trees[0].tree, trees[0].score
    return bool(t.is_leaf and t.token.get('word') == 'FAILED' and s == float('-inf'))
