"""M-ja: schema table of the Japanese combinators and unary labels, over category models."""
from vlib.model_cat import A, F, arg0, blind, erase, feats, is_mod, leaves
from vlib.oracle_unify import is_var, match_parts

FWD = '/|'
BWD = '\\|'
SYMBOLS = ['>', '<', '>B', '<B1', '<B2', '<B3', '<B4', '>Bx1', '>Bx2', '>Bx3', 'SSEQ']
LABEL_OF = {'>': 'fa', '<': 'ba', '>B': 'fc', '<B1': 'bx', '<B2': 'bx', '<B3': 'bx', '<B4': 'bx',
            '>Bx1': 'fx', '>Bx2': 'fx', '>Bx3': 'fx', 'SSEQ': 'other'}

ROOT_TEXTS = [
    "NP[case=nc,mod=nm,fin=f]", "NP[case=nc,mod=nm,fin=t]", "S[mod=nm,form=attr,fin=t]",
    "S[mod=nm,form=base,fin=f]", "S[mod=nm,form=base,fin=t]", "S[mod=nm,form=cont,fin=f]",
    "S[mod=nm,form=cont,fin=t]", "S[mod=nm,form=da,fin=f]", "S[mod=nm,form=da,fin=t]",
    "S[mod=nm,form=hyp,fin=t]", "S[mod=nm,form=imp,fin=f]", "S[mod=nm,form=imp,fin=t]",
    "S[mod=nm,form=r,fin=t]", "S[mod=nm,form=s,fin=t]", "S[mod=nm,form=stem,fin=f]",
    "S[mod=nm,form=stem,fin=t]"]

_roots = None


def roots():
    """the categories sentence sequencing applies to: the library's own list when it exposes one (which categories
    count as sentence roots is configuration, not part of the statement), else the list as shipped"""
    global _roots
    if _roots is None:
        from vlib.model_cat import model_of, read
        _roots = [read(t) for t in ROOT_TEXTS]
        try:
            from depccg.grammar import ja
            lib = getattr(ja, '_possible_root_categories', None)
            if lib:
                _roots = [model_of(c) if not isinstance(c, str) else read(c) for c in lib]
        except Exception:
            pass
    return _roots


def derived(res, src, pool):
    if blind(res) != blind(src):
        return False
    for r, s in zip(leaves(res), leaves(src)):
        if r[2] == s[2]:
            continue
        if is_var(s[2]) and r[2] in pool:
            continue
        if is_var(s[2]) and isinstance(r[2], tuple) and isinstance(s[2], tuple) and len(r[2]) == len(s[2]) and all(
                rk == sk and (rv == sv or (str(sv).startswith('X') and any(
                    isinstance(pf, tuple) and any(pv == rv for _, pv in pf) for pf in pool)))
                for i, ((rk, rv), (sk, sv)) in enumerate(zip(r[2], s[2]))):
            continue            # each variable slot filled with a slot value that occurs in the inputs
        return False
    return True


def fun(m, slashes):
    return m[0] == 'f' and m[2] in slashes


def spine(m, depth):
    """peel `depth` outer arguments: (core, [(slash, arg) outermost first])"""
    args = []
    for _ in range(depth):
        if m[0] != 'f':
            return None
        args.append((m[2], m[3]))
        m = m[1]
    return m, args


def rebuild(core, args):
    for s, a in reversed(args):
        core = F(core, s, a)
    return core


UNSPEC = object()


def justify(x, y, res, sym):
    """None = licensed; UNSPEC = statement silent (mixed-side feature variables); str = reason"""
    pool = feats(x) | feats(y)

    def tri(m):
        return m
    if sym == '>':
        if not fun(x, FWD):
            return 'left input is not a forward functor'
        m = match_parts(x[3], y)
        if m is None:
            return UNSPEC
        if not m:
            return 'argument does not match'
        if is_mod(x) and res == y:
            return None             # (the modifier shortcut; the statement does not ask for it, nor forbid it)
        return None if derived(res, x[1], pool) else 'result is not the functor result'
    if sym == '<':
        if not fun(y, BWD):
            return 'right input is not a backward functor'
        m = match_parts(y[3], x)
        if m is None:
            return UNSPEC
        if not m:
            return 'argument does not match'
        if is_mod(y) and res == x:
            return None
        return None if derived(res, y[1], pool) else 'result is not the functor result'
    if sym == '>B':
        if not (fun(x, FWD) and fun(y, FWD)):
            return 'inputs are not two forward functors'
        m = match_parts(x[3], y[1])
        if m is None:
            return UNSPEC
        if not m:
            return 'composed-over categories do not match'
        if is_mod(x) and res == y:
            return None
        ok = res[0] == 'f' and res[2] in ('/', y[2]) and derived(res[1], x[1], pool) and derived(res[3], y[3], pool)
        return None if ok else 'result is not A/C'
    if sym in ('<B1', '<B2', '<B3', '<B4'):
        n = int(sym[2:])
        if not fun(y, BWD):
            return 'right input is not a backward functor'
        sp = spine(x, n - 1)
        if sp is None:
            return 'left input has too few arguments'
        core, args = sp
        if not fun(core, BWD):
            return 'left input core is not a backward functor'
        m = match_parts(core[1], y[3])
        if m is None:
            return UNSPEC
        if not m:
            return 'composed-over categories do not match'
        if is_mod(y) and res == x:
            return None
        rs = spine(res, n - 1)
        if rs is None:
            return 'result has too few arguments'
        rcore, rargs = rs
        if not (rcore[0] == 'f' and rcore[2] in ('\\', core[2]) and derived(rcore[1], y[1], pool)
                and derived(rcore[3], core[3], pool)):
            return 'result core is not A\\C'
        if [s for s, _ in rargs] != [s for s, _ in args]:
            return 'outer slashes of the primary functor not kept'
        return None if all(derived(ra, a, pool) for (_, ra), (_, a) in zip(rargs, args)) else 'outer arguments changed'
    if sym in ('>Bx1', '>Bx2', '>Bx3'):
        n = int(sym[3:])
        if not fun(x, FWD):
            return 'left input is not a forward functor'
        sp = spine(y, n - 1)
        if sp is None:
            return 'right input has too few arguments'
        core, args = sp
        if not fun(core, BWD):
            return 'right input core is not a backward functor'
        m = match_parts(x[3], core[1])
        if m is None:
            return UNSPEC
        if not m:
            return 'composed-over categories do not match'
        if is_mod(x) and res == y:
            return None
        rs = spine(res, n - 1)
        if rs is None:
            return 'result has too few arguments'
        rcore, rargs = rs
        # "keeps the slash of the secondary functor": the backward slash, or the functor's own '|' when it is
        # written with the either-way slash
        if not (rcore[0] == 'f' and rcore[2] in ('\\', core[2])):
            return 'crossed composition must keep the slash of the secondary functor'
        if not (derived(rcore[1], x[1], pool) and derived(rcore[3], core[3], pool)):
            return 'result core is not A\\C'
        if [s for s, _ in rargs] != [s for s, _ in args]:
            return 'outer slashes of the secondary functor not kept'
        return None if all(derived(ra, a, pool) for (_, ra), (_, a) in zip(rargs, args)) else 'outer arguments changed'
    if sym == 'SSEQ':
        return None if x in roots() and y in roots() and res == y else 'sentence sequencing premises do not hold'
    return f'unknown symbol {sym}'


def expected(x, y):
    """results demanded when a schema's premises hold with identical matched parts"""
    out = []
    if fun(x, FWD) and x[3] == y:
        out.append(('>', y if is_mod(x) else x[1]))
    if fun(y, BWD) and y[3] == x:
        out.append(('<', x if is_mod(y) else y[1]))
    if fun(x, FWD) and fun(y, FWD) and x[3] == y[1]:
        out.append(('>B', y if is_mod(x) else F(x[1], '/', y[3])))
    if fun(y, BWD):
        for n in (1, 2, 3, 4):
            sp = spine(x, n - 1)
            if sp is None:
                break
            core, args = sp
            if fun(core, BWD) and core[1] == y[3]:
                out.append((f'<B{n}', x if is_mod(y) else rebuild(F(y[1], '\\', core[3]), args)))
    if fun(x, FWD):
        for n in (1, 2, 3):
            sp = spine(y, n - 1)
            if sp is None:
                break
            core, args = sp
            if fun(core, BWD) and x[3] == core[1]:
                out.append((f'>Bx{n}', y if is_mod(x) else rebuild(F(x[1], '\\', core[3]), args)))
    if x in roots() and y in roots():
        out.append(('SSEQ', y))
    return out


def premises_hold(x, y):
    return bool(expected(x, y)) or (fun(x, FWD) and match_parts(x[3], y)) or (fun(y, BWD) and match_parts(y[3], x))


# ---------------------------------------------------------------- unary labels
S_ = A('S')
S_NP = F(A('S'), '\\', A('NP'))
S_NP_NP = F(F(A('S'), '\\', A('NP')), '\\', A('NP'))


def strip(m):
    if m[0] == 'f':
        return F(strip(m[1]), m[2], strip(m[3]))
    return A(m[1])


def unary_label(x):
    """label fixed by the statement for input x, or None where the statement is silent"""
    f = arg0(x)[2]
    if not isinstance(f, tuple):
        return None
    feats_ = set(f)
    shape = strip(x)
    if ('mod', 'adn') in feats_:
        if shape == S_:
            return 'ADNext'
        if shape == S_NP:
            return 'ADNint'
        return None            # ADN with >= 2 missing arguments: not fixed
    if ('mod', 'adv') in feats_:
        if shape == S_ or shape == A('NP'):
            return 'ADV0'
        if shape == S_NP:
            return 'ADV1'
        if shape == S_NP_NP:
            return 'ADV2'
        return None
    return None
