"""G-tok: token text and token objects, tape-driven."""
import unicodedata

SPECIAL = list('()[]{}<>\'"/\\|&-.,!=#*_')
WHOLE = ['(', ')', '{', '}', '[', ']', '<', '>', '-LRB-', '-RRB-', '-', '&', '.', ',', '!', "'s", '``', "''",
         'a(b', 'x)', '<s>', '-LAB-', '--', '...',
         # escapes / header look-alikes embedded in a longer token
         'f-LRB-x-RRB-', 'x-LCB-', '-RSB-y', 'ID=42', 'userID=a', '#ID=1', 'a[conj]', 'x_none', '{I1}y',
         # the word of the failure placeholder, as an ordinary word
         'FAILED',
         # the other PTB bracket escapes as whole words
         '-LCB-', '-RCB-', '-LSB-', '-RSB-']
ASCII = list('abcdefghijklmnopqrstuvwxyzABCDEXYZ0123456789')
CURATED = list('éüñçßøÅΩλжЯאبहกあアｱ日本語漢字中한𝔘😀🙂€£©±×÷¿¡«»‘’“”…–—・。、「」') + ['́', '̈', '゙', '⃣']


def ok_char(ch, exclude):
    if ch in exclude:
        return False
    cp = ord(ch)
    if cp in (0xFFFE, 0xFFFF) or 0xD800 <= cp <= 0xDFFF or (cp & 0xFFFF) in (0xFFFE, 0xFFFF):
        return False
    return unicodedata.category(ch)[0] in 'LNPSM'


def t_char(t, exclude=''):
    k = t.below(10)
    if k < 4:
        ch = t.pick(SPECIAL)
    elif k < 7:
        ch = t.pick(ASCII)
    elif k < 9:
        ch = t.pick(CURATED)
    else:
        cp = 0x21 + (((t.byte() << 16) | (t.byte() << 8) | t.byte()) % 0x2FFDF)
        ch = chr(cp)
    if not ok_char(ch, exclude):
        for alt in ('z', 'Q', '7'):
            if alt not in exclude:
                return alt
    return ch


def t_word(t, exclude='', max_len=6):
    """non-empty printable non-blank text; whole-token specials boosted"""
    if t.chance(70):
        w = t.pick(WHOLE)
        if not any(c in exclude for c in w):
            return w
    n = 1 + t.below(max_len)
    return ''.join(t_char(t, exclude) for _ in range(n))


def classify_word(w):
    if w in ('(', ')', '{', '}', '[', ']', '<', '>'):
        return 'whole-bracket'
    if any(c in w for c in '()[]{}<>'):
        return 'contains-bracket'
    if any(c in w for c in '\'"\\/|&'):
        return 'quote-slash-amp'
    if any(ord(c) > 127 for c in w):
        return 'non-ascii'
    return 'plain'


def t_token_en(t, exclude=''):
    """attribute set produced by the English annotators"""
    return {'word': t_word(t, exclude), 'lemma': t_word(t, exclude),
            # (POS is a real tag, the possessive, and also the filler the AUTO printer writes for untagged words;
            # XX is the filler of the other columns)
            'pos': t.pick(['NN', 'VBZ', 'DT', '.', ',', '-LRB-', 'POS', 'XX']) if t.chance(150) else t_word(t, exclude, 4),
            'entity': t.pick(['O', 'I-PER', 'XX', 'POS']) if t.chance(180) else t_word(t, exclude, 4),
            'chunk': t.pick(['XX', 'I-NP']) if t.chance(180) else t_word(t, exclude, 4)}


def t_token_ja(t, exclude=''):
    """attribute set produced by the Japanese annotators (janome / jigg)"""
    w = t_word(t, exclude)

    def val():
        return '*' if t.chance(90) else t_word(t, exclude, 4)
    return {'word': w, 'surf': w, 'base': t_word(t, exclude) if t.chance(128) else '*', 'pos': val(), 'pos1': val(),
            'pos2': val(), 'pos3': val(), 'inflectionForm': val(), 'inflectionType': val(), 'reading': val()}


def t_token_variant(t, system, exclude=''):
    """attribute sets met in practice: the annotators' full set, word+pos (POS-tagged input),
    or a bare word (trees built with Tree.make_terminal(word, cat) or read from PTB / bank files)"""
    full = (t_token_ja if system == 'ja' else t_token_en)(t, exclude)
    k = t.weighted([(5, 'full'), (2, 'bare'), (2, 'word+pos')])
    if k == 'bare':
        return {'word': full['word']}
    if k == 'word+pos':
        return {'word': full['word'], 'pos': full['pos']}
    return full


def make_token(d):
    from depccg.types import Token
    return Token(**d)
