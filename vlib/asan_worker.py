"""Child interpreter for the sanitizer campaign of C02: the shim + parsing.h are compiled with
-fsanitize=address,undefined and generated parser cases are run through depccg.parsing.run.
Started by checks/c02.py with libasan preloaded.  usage: python -m vlib.asan_worker <seed> <count> <casefile>"""
import json
import random
import sys


def main():
    seed, count, casefile = int(sys.argv[1]), int(sys.argv[2]), sys.argv[3]
    from vlib import env, pyxlite  # noqa: F401
    mod, rt = pyxlite.build(env.REPO, sanitize=True)
    import depccg.parsing  # noqa: F401
    from vlib import native, gen_gram, gen_sent
    from vlib.tape import Tape
    native._rt = rt
    if count == 0:
        cases = [json.load(open(casefile))]
    else:
        rng = random.Random(seed)      # fixed byte tapes derived from the seed (not a property-level random choice:
        cases = None                   # the tapes are regenerated identically for replay)
    n = 0
    for i in range(max(count, 1)):
        if cases is not None:
            case = cases[0]
        else:
            data = bytes(rng.randrange(256) for _ in range(700))
            t = Tape(data)
            if i % 10 == 9:
                case = gen_sent.t_real_case(t, 'en' if i % 20 == 9 else 'ja', n_max=5, nbest_max=3)
            else:
                case = gen_sent.t_table_case(t, head_modes=('left', 'right', 'mixed'), n_max=6, T_max=5, K_max=8,
                                             nbest_max=5, multi_label=(i % 3 == 0))
            case['config']['max_step'] = 20000
        with open(casefile + '.current', 'w') as f:
            json.dump(case, f)
        g = gen_gram.make_grammar(gen_sent.resolve_grammar_spec(case['grammar']))
        try:
            native.run_parser(case, g)
        except Exception:
            pass
        n += 1
    print('SANITIZER-OK', n)


if __name__ == '__main__':
    main()
