"""M-cat: an independent structural model of category values (DESIGN.md section 5).

A model is a nested tuple
    ('a', base, feat)            feat = None | str | ((k,v),(k,v),(k,v))
    ('f', left, slash, right)
built from a Category by attribute access only (`model_of`) or by the generators
directly.  It has its own printer (`canon`) and its own reader (`read`) written
from the documented text grammar, not from depccg/cat.py.
"""
from string import ascii_letters


_MISSING = object()
STANDARD_KEY_LAYOUTS = (('mod', 'form', 'fin'), ('case', 'mod', 'fin'))


def feat_model(f):
    """feature -> None | str | ((k,v),(k,v),(k,v)), through the public interface of the feature classes
    (`items()` of three-part features, `value` of unary ones, their text as a last resort); how a class stores its
    parts, and whether 'no feature' is None or the empty string, is not looked at"""
    if f is None:
        return None
    items = getattr(f, 'items', None)
    if callable(items):
        kv = tuple((str(k), str(v)) for k, v in items())
        if kv:                      # (a unary feature may offer the same interface and have no pairs)
            return kv
    v = getattr(f, 'value', _MISSING)
    if v is _MISSING:
        v = str(f)
        if '=' in v:
            return tuple(tuple(kv.split('=', 1)) for kv in v.split(','))
    return None if v is None or v == '' else v


def model_of(c):
    """by attribute access only (never through the category printer, which is itself under test)"""
    if c.is_functor:
        return ('f', model_of(c.left), c.slash, model_of(c.right))
    return ('a', c.base, feat_model(c.feature))


def to_cat(m):
    from depccg.cat import Atom, Functor, UnaryFeature, TernaryFeature
    if m[0] == 'f':
        return Functor(to_cat(m[1]), m[2], to_cat(m[3]))
    f = m[2]
    if isinstance(f, tuple):
        if tuple(k for k, _ in f) not in STANDARD_KEY_LAYOUTS:
            # a repeated attribute key or the attributes in another order: kept in the generators because today's
            # classes accept it, but nothing promises that such a value can be built
            try:
                return Atom(m[1], TernaryFeature(*[tuple(kv) for kv in f]))
            except Exception as ex:
                from vlib.runner import OutOfDomain
                raise OutOfDomain(str(ex))
        return Atom(m[1], TernaryFeature(*[tuple(kv) for kv in f]))
    if f is None:
        return Atom(m[1])
    return Atom(m[1], UnaryFeature(f))


ORIGINS = ('built', 'parsed', 'pickled', 'deep-copied')


def to_cat_via(m, origin):
    """the same value obtained the ways a program obtains categories: built with the constructors, parsed from
    text, received through pickle (as worker processes do), copied"""
    c = to_cat(m)
    if origin == 'parsed':
        from depccg.cat import Category
        return Category.parse(canon(m))
    if origin == 'pickled':
        import pickle
        return pickle.loads(pickle.dumps(c))
    if origin == 'deep-copied':
        import copy
        return copy.deepcopy(c)
    return c


def ftxt(f):
    if f is None:
        return ''
    if isinstance(f, tuple):
        return ','.join(f'{k}={v}' for k, v in f)
    return f


def canon(m):
    if m[0] == 'a':
        t = ftxt(m[2])
        return m[1] + (f'[{t}]' if t else '')

    def w(x):
        return '(' + canon(x) + ')' if x[0] == 'f' else canon(x)
    return w(m[1]) + m[2] + w(m[3])


def blind(m):
    if m[0] == 'f':
        return ('f', blind(m[1]), m[2], blind(m[3]))
    return ('a', m[1])


def erase(m, names):
    """remove exactly the named features everywhere"""
    if m[0] == 'f':
        return ('f', erase(m[1], names), m[2], erase(m[3], names))
    f = m[2]
    if f is not None and ftxt(f) in names:
        return ('a', m[1], None)
    return m


def leaves(m):
    if m[0] == 'f':
        return leaves(m[1]) + leaves(m[3])
    return [m]


def feats(m):
    return {x[2] for x in leaves(m)}


def size(m):
    return 0 if m[0] == 'a' else 1 + size(m[1]) + size(m[3])


def nargs(m):
    return 0 if m[0] == 'a' else 1 + nargs(m[1])


def arg0(m):
    while m[0] == 'f':
        m = m[1]
    return m


def F(left, s, right):
    return ('f', left, s, right)


def A(base, feat=None):
    return ('a', base, feat)


def is_mod(m):
    return m[0] == 'f' and m[1] == m[3]


def is_punct_en(m):
    return m[0] == 'a' and (m[1][0] not in ascii_letters or m[1] in ('LRB', 'RRB', 'LQU', 'RQU'))


def is_type_raised(m):
    return m[0] == 'f' and m[3][0] == 'f' and m[3][1] == m[1]


def jsonable(m):
    if m[0] == 'f':
        return ['f', jsonable(m[1]), m[2], jsonable(m[3])]
    f = m[2]
    return ['a', m[1], [list(kv) for kv in f] if isinstance(f, tuple) else f]


def from_json(j):
    if j[0] == 'f':
        return ('f', from_json(j[1]), j[2], from_json(j[3]))
    f = j[2]
    return ('a', j[1], tuple(tuple(kv) for kv in f) if isinstance(f, list) else f)


# ---------------------------------------------------------------------------
# own reader of the documented category text grammar:
#   cat   := operand [ slash operand ]            (exactly one slash per level)
#   operand := atom | '(' cat ')' | '<' cat '>'
#   atom  := base [ '[' feature ']' ]
# blanks may separate any two tokens.  Two slashes at one level are ambiguous
# and rejected.
class ReadError(Exception):
    pass


def _tokens(text):
    out = []
    cur = ''
    for ch in text:
        if ch in '[]()/\\|<>' or ch == ' ':
            if cur:
                out.append(cur)
                cur = ''
            if ch != ' ':
                out.append(ch)
        else:
            cur += ch
    if cur:
        out.append(cur)
    return out


def _feature(text):
    if '=' in text and ',' in text:
        kvs = tuple(tuple(kv.split('=')) for kv in text.split(','))
        if len(kvs) != 3 or any(len(kv) != 2 for kv in kvs):
            raise ReadError('bad three-part feature')
        return kvs
    return text


def read(text):
    toks = _tokens(text)
    pos = 0

    def operand():
        nonlocal pos
        if pos >= len(toks):
            raise ReadError('unexpected end')
        t = toks[pos]
        if t in '(<' and len(t) == 1:
            close = ')' if t == '(' else '>'
            pos += 1
            c = cat()
            if pos >= len(toks) or toks[pos] != close:
                raise ReadError('unbalanced bracket')
            pos += 1
            return c
        if len(t) == 1 and t in '[])>/\\|':
            raise ReadError('unexpected ' + t)
        pos += 1
        feat = None
        if pos < len(toks) and toks[pos] == '[':
            if pos + 2 >= len(toks) or toks[pos + 2] != ']':
                raise ReadError('bad feature')
            feat = _feature(toks[pos + 1])
            pos += 3
        return ('a', t, feat)

    def cat():
        nonlocal pos
        left = operand()
        if pos < len(toks) and len(toks[pos]) == 1 and toks[pos] in '/\\|':
            s = toks[pos]
            pos += 1
            right = operand()
            if pos < len(toks) and len(toks[pos]) == 1 and toks[pos] in '/\\|':
                raise ReadError('two slashes at one level')
            return ('f', left, s, right)
        return left

    c = cat()
    if pos != len(toks):
        raise ReadError('trailing input')
    return c
