"""M-unify: the C06 statement transcribed over category models (not a port of unification.py).

verdict(px, py, x, y) -> (True | False | None, occurrences, stage)
  None = the statement does not fix the answer (three-part features with variables on
  both sides in different slots); counted, never judged.
"""
import collections

from vlib.model_cat import blind, leaves


def is_var(f):
    if isinstance(f, tuple):
        return any(v.startswith('X') for _, v in f)
    return f == 'X'


def compat1(a, b):
    """unary features: equal, or one side absent / 'nb' / variable"""
    return a == b or a in (None, 'nb', 'X') or b in (None, 'nb', 'X')


def compat3(a, b):
    """three-part features -> True / False / None (unspecified)"""
    if a == b:
        return True
    if not (isinstance(a, tuple) and isinstance(b, tuple)):
        return None          # mixing feature systems: outside every statement
    if [k for k, _ in a] != [k for k, _ in b]:
        return False
    dirs = set()
    for (_, va), (_, vb) in zip(a, b):
        if va == vb:
            continue
        xa, xb = va.startswith('X'), vb.startswith('X')
        if not xa and not xb:
            return False
        dirs.add('both' if (xa and xb) else ('a' if xa else 'b'))
    if dirs <= {'a'} or dirs <= {'b'}:
        return True
    return None


def compat(a, b):
    if isinstance(a, tuple) or isinstance(b, tuple):
        return compat3(a, b)
    return compat1(a, b)


def match_parts(b1, b2):
    """feature-blind equal and leaf-wise compatible -> True / False / None"""
    if blind(b1) != blind(b2):
        return False
    rs = [compat(p[2], q[2]) for p, q in zip(leaves(b1), leaves(b2))]
    if any(r is False for r in rs):
        return False
    if any(r is None for r in rs):
        return None
    return True


def verdict(px, py, x, y):
    occ = collections.OrderedDict()

    def shape(p, t, side):
        if p[0] == 'a':
            occ.setdefault(p[1], []).append((side, t))
            return True
        if t[0] != 'f':
            return False
        if not (p[2] == t[2] or '|' in (p[2], t[2])):
            return False
        return shape(p[1], t[1], side) and shape(p[3], t[3], side)

    if not (shape(px, x, 'x') and shape(py, y, 'y')):
        return False, occ, 'shape'
    unspec = False
    for v, os_ in occ.items():
        if len(os_) > 1:
            b0 = blind(os_[0][1])
            if any(blind(t) != b0 for _, t in os_):
                return False, occ, 'blind'
    for v, os_ in occ.items():
        if len(os_) > 1:
            xs = [t for s, t in os_ if s == 'x']
            ys = [t for s, t in os_ if s == 'y']
            for tx in xs:
                for ty in ys:
                    for p, q in zip(leaves(tx), leaves(ty)):
                        c = compat(p[2], q[2])
                        if c is False:
                            return False, occ, 'feature'
                        if c is None:
                            unspec = True
    return (None if unspec else True), occ, 'ok'


def binding_valid(b, occurrences, pool):
    """b (model of uni[v]) is one of the matched occurrences with at most its variable
    features replaced by features occurring in the inputs"""
    for _, t in occurrences:
        if blind(b) != blind(t):
            continue
        if all(r[2] == s[2] or (is_var(s[2]) and r[2] in pool) for r, s in zip(leaves(b), leaves(t))):
            return True
    return False


def pattern_vars(p):
    return [l[1] for l in leaves(p)]
