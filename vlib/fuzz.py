"""Coverage-guided campaigns (atheris / libFuzzer) over the same tape builders the Hypothesis checks use.

child:  python -m vlib.fuzz <check module> <runs> <seed> <workdir>
        target = module.fuzz_one(data) -> (fails, case); an unlisted failure dumps the case and aborts.
parent: campaign(ctx, module_name, runs) -> merges executions / findings into ctx.
The libFuzzer seed pins a campaign only approximately; the saved case is the reproducible unit.
"""
import json
import os
import shutil
import subprocess
import sys
import tempfile


def _child():
    modname, runs, seed, workdir = sys.argv[1], int(sys.argv[2]), int(sys.argv[3]), sys.argv[4]
    here = os.path.dirname(os.path.dirname(os.path.abspath(__file__)))
    sys.path.insert(0, here)
    deps = os.path.join(here, '.deps')
    if os.path.isdir(deps):
        sys.path.insert(1, deps)
    import atheris
    from vlib import env  # noqa: F401
    with atheris.instrument_imports(include=['depccg']):
        import depccg.cat  # noqa: F401
        import depccg.unification  # noqa: F401
        import depccg.grammar.en  # noqa: F401
        import depccg.grammar.ja  # noqa: F401
    import importlib
    from vlib import runner
    mod = importlib.import_module('checks.' + modname)
    known = runner.load_known(mod.PROPERTY)
    stats = {'execs': 0, 'known': 0}

    def one(data):
        stats['execs'] += 1
        fails, case = mod.fuzz_one(data)
        bad = [f for f in fails if f[0] not in known]
        stats['known'] += len(fails) - len(bad)
        if bad:
            with open(os.path.join(workdir, 'violation.json'), 'w') as f:
                json.dump({'key': bad[0][0], 'msg': bad[0][1], 'case': case}, f, default=str)
            raise RuntimeError('property violated: ' + bad[0][0])
    corpus = os.path.join(workdir, 'corpus')
    os.makedirs(corpus, exist_ok=True)
    argv = [sys.argv[0], corpus, f'-runs={runs}', f'-seed={seed if seed else 1}', '-max_len=256', '-print_final_stats=1',
            f'-artifact_prefix={workdir}/']
    atheris.Setup(argv, one)
    import atexit

    def dump():
        with open(os.path.join(workdir, 'stats.json'), 'w') as f:
            json.dump(stats, f)
    atexit.register(dump)
    try:
        atheris.Fuzz()
    finally:
        dump()


def campaign(ctx, modname, runs):
    here = os.path.dirname(os.path.dirname(os.path.abspath(__file__)))
    deps = os.path.join(here, '.deps')
    probe = subprocess.run([sys.executable, '-c', 'import sys; sys.path.insert(0, %r); import atheris' % deps],
                           capture_output=True)
    if probe.returncode != 0:
        ctx.notes['coverage_guided_campaign'] = 'skipped: atheris is not installed (setup.sh installs it into .deps when the wheel is present)'
        return
    wd = tempfile.mkdtemp(prefix='depccg_fuzz_')
    try:
        from vlib import env, runner
        e = dict(os.environ, PYTHONPATH=here, VERIF_REPO=env.REPO)
        r = subprocess.run([sys.executable, '-m', 'vlib.fuzz', modname, str(runs), str(runner.hseed(ctx, 77)), wd], cwd=here, env=e,
                           capture_output=True, text=True, timeout=7200)
        execs = 0
        for line in (r.stderr or '').split('\n'):
            if 'stat::number_of_executed_units' in line:
                execs = int(line.split()[-1])
        cov = None
        for line in reversed((r.stderr or '').split('\n')):
            if ' cov: ' in line:
                cov = int(line.split(' cov: ')[1].split()[0])
                break
        ctx.count(execs, cls='coverage-guided')
        ctx.notes['coverage_guided_campaign'] = {'engine': 'atheris/libFuzzer', 'executions': execs, 'edges_covered': cov,
                                                  'corpus_files': len(os.listdir(os.path.join(wd, 'corpus'))) if os.path.isdir(os.path.join(wd, 'corpus')) else 0}
        vf = os.path.join(wd, 'violation.json')
        if os.path.exists(vf):
            v = json.load(open(vf))
            ctx.report_direct([(v['key'], '[coverage-guided] ' + v['msg'])], v['case'])
        elif r.returncode != 0:
            raise runner.HarnessError('fuzz child failed:\n' + (r.stderr or '')[-1500:])
    finally:
        shutil.rmtree(wd, ignore_errors=True)


if __name__ == '__main__':
    _child()
