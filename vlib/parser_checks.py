"""Per-case oracles shared by the parser properties C01, C02, C09, C10, C12(a), C16."""
import math

from vlib import gen_gram, gen_sent, native, oracle_chart as oc

INF = float('inf')


def close(a, b, numeric):
    if a == b:
        return True
    if numeric == 'dyadic':
        return False
    if math.isinf(a) or math.isinf(b):
        return False
    return abs(a - b) <= 1e-4 * (1 + abs(b))


def leq(a, b, numeric):
    """a <= b up to the numeric class' tolerance"""
    return a <= b or close(a, b, numeric)


class Evaluated:
    pass


_gcache = {}


def grammars_for(spec0):
    """(grammar handed to the parser, memoised copy for the oracles); real grammars are cached per spec"""
    import json
    if spec0['kind'] == 'table':
        spec = spec0
        return gen_gram.make_grammar(spec), oc.Memo(gen_gram.make_grammar(spec))
    key = json.dumps(spec0, sort_keys=True)
    if key not in _gcache:
        if len(_gcache) > 8:
            _gcache.clear()
        spec = gen_sent.resolve_grammar_spec(spec0)
        _gcache[key] = (gen_gram.make_grammar(spec), oc.Memo(gen_gram.make_grammar(spec)))
    return _gcache[key]


def prepare(case, sent_index=0):
    """everything the oracles need that does not require running the parser"""
    from depccg.cat import Category
    ev = Evaluated()
    ev.grammar, ev.memo = grammars_for(case['grammar'])
    sent = case['sentences'][sent_index]
    ev.sent = sent
    ev.n = len(sent['words'])
    ev.tags = [Category.parse(c) for c in case['tags']]
    ev.tag_index = {c: i for i, c in enumerate(ev.tags)}
    ev.roots = {Category.parse(c) for c in case['roots']}
    cfg = case['config']
    ev.cfg = cfg
    ev.numeric = case.get('numeric', 'dyadic')
    ev.head_mode = case.get('head_mode')
    ev.pops = None
    ev.exception = None
    ev.results = ev.docs = ev.trees = None
    ev.faults = []
    ev.placeholder = False
    ev.must, ev.may = [], []
    for row in sent['tag']:
        mu, ma = oc.admitted([float(v) for v in row], cfg['pruning_size'], cfg['beta'], cfg['use_beta'])
        ev.must.append(mu)
        ev.may.append(ma)
    ev.beam_exact = all(mu == ma for mu, ma in zip(ev.must, ev.may))
    return ev


def warmup_sentences(sent, k):
    """k sentences made from the case's own sentence (no extra tape): its rows in reverse order, and its first
    token alone.  They are parsed in the same call before the sentence under test, so that the sentence is not the
    first one its call sees (configuration, caches and category table have been used already)."""
    n = len(sent['words'])
    out = [{'words': [f'v{i}' for i in range(n)], 'tag': [list(r) for r in reversed(sent['tag'])],
            'dep': [list(r) for r in sent['dep']]},
           {'words': ['u0'], 'tag': [list(sent['tag'][0])], 'dep': [list(sent['dep'][0][:2])]}]
    return out[:k]


def execute(ev, case, want_pops=False):
    """run the real parser on the prepared sentence"""
    sent = ev.sent
    via_pool = bool(case.get('via_pool'))       # results (and grammar, categories) cross a pickle boundary
    # (the pooled branch is taken for calls of two or more sentences: a pooled case has at least one warm-up sentence)
    warm = warmup_sentences(sent, max(int(case.get('warmup') or 0), 1 if via_pool else 0))
    try:
        if want_pops and not warm:
            with native.PopTrace() as tr:
                results, docs, faults = native.run_parser(case, ev.grammar, sentences=[sent], via_pool=via_pool)
            ev.pops = tr.pops if tr.enabled else None
        else:
            # (the pop trace has no sentence boundaries: it is taken only when the sentence is alone in its call)
            results, docs, faults = native.run_parser(case, ev.grammar, sentences=warm + [sent], via_pool=via_pool,
                                                      max_chunk_size=max(20, len(warm) + 1))
            if len(results) == len(warm) + 1:
                results, docs = results[len(warm):], docs[len(warm):]
    except Exception as ex:  # the parser itself raised
        from vlib.runner import HarnessError, OutOfDomain
        if isinstance(ex, (OutOfDomain, HarnessError)):
            raise
        import traceback
        frames = traceback.extract_tb(ex.__traceback__)
        if isinstance(ex, (NameError, AttributeError, TypeError)) and frames and \
                ('_parsing_translated' in frames[-1].filename or '/vlib/' in frames[-1].filename):
            # raised by the run-time translation of parsing.pyx or by a stand-in of the harness (a Cython name the
            # translator does not supply, a method a stand-in lacks): a limitation of the harness, not a verdict
            raise HarnessError(f'{type(ex).__name__}: {ex} (at {frames[-1].filename}:{frames[-1].lineno})') from ex
        ev.exception = ex
        return ev
    ev.results = results
    ev.docs = docs
    ev.faults = faults
    ev.trees = results[0] if len(results) == 1 else None
    ev.placeholder = ev.trees is not None and native.is_placeholder(ev.trees)
    return ev


def evaluate(case, want_pops=False, sent_index=0):
    """run the real parser on one sentence of the case and compute everything the oracles need"""
    return execute(prepare(case, sent_index), case, want_pops)


def leaf_scores(ev, sets):
    return [{ev.tags[c]: float(ev.sent['tag'][i][c]) for c in sets[i]} for i in range(ev.n)]


def chart_bounds(ev):
    """(optimum over must_admit, optimum over may_admit) as chart results"""
    head_left = ev.head_mode == 'left'
    up = float(ev.cfg['unary_penalty'])
    hi = oc.chart(ev.n, leaf_scores(ev, ev.may), ev.memo, ev.roots, ev.sent['dep'], up, head_left)
    lo = hi if ev.beam_exact else oc.chart(ev.n, leaf_scores(ev, ev.must), ev.memo, ev.roots, ev.sent['dep'],
                                           up, head_left)
    return lo, hi


# ------------------------------------------------------------------ C02
def validity_fails(ev, P):
    fails = []

    def bad(key, msg):
        fails.append((f'{P}/{key}', msg))
    if ev.exception is not None:
        bad(f'parser-raises/{type(ev.exception).__name__}', f'{type(ev.exception).__name__}: {ev.exception}')
        return fails
    for f in ev.faults:
        bad('fault/' + f.split(':')[0][:60], f'back-pointer machinery fault: {f}')
    if ev.results is None or len(ev.results) != 1:
        bad('result-shape', f'expected one result list for one sentence, got {len(ev.results or [])}')
        return fails
    trees = ev.trees
    if not isinstance(trees, list) or len(trees) == 0:
        bad('empty-result', 'a sentence got neither a tree nor the failure placeholder')
        return fails
    if ev.placeholder:
        return fails
    if len(trees) > max(1, ev.cfg['nbest']):
        bad('too-many-trees', f'{len(trees)} trees returned for nbest={ev.cfg["nbest"]}')
    doc = ev.docs[0]
    for k, st in enumerate(trees):
        tree = st.tree
        leaves = tree.leaves
        if len(leaves) != ev.n:
            bad('leaf-count', f'tree {k} has {len(leaves)} leaves for {ev.n} tokens')
            continue
        for i, leaf in enumerate(leaves):
            if not (leaf.token == doc[i]):
                bad('leaf-token', f'tree {k} leaf {i} carries {dict(leaf.token)}, input token is {dict(doc[i])}')
            col = ev.tag_index.get(leaf.cat)
            if col is None:
                bad('leaf-not-a-tag', f'tree {k} leaf {i} has category {leaf.cat}, not one of the scored tags')
            elif col not in ev.may[i]:
                bad('leaf-not-admitted', f'tree {k} leaf {i} uses tag {leaf.cat} which the beam excludes '
                    f'(row {ev.sent["tag"][i]}, pruning_size={ev.cfg["pruning_size"]}, beta={ev.cfg["beta"]}, '
                    f'use_beta={ev.cfg["use_beta"]})')

        def rec(node):
            if node.is_leaf:
                return
            if node.is_unary:
                ch = node.children[0]
                rec(ch)
                if node.cat not in [r[0] for r in ev.memo.unary(ch.cat)]:
                    bad('unlicensed-unary', f'tree {k}: {ch.cat} => {node.cat} is not a unary result of the grammar')
                return
            l, r = node.children
            rec(l)
            rec(r)
            if node.cat not in [q[0] for q in ev.memo.binary(l.cat, r.cat)]:
                bad('unlicensed-binary', f'tree {k}: {l.cat} {r.cat} => {node.cat} is not a result of the grammar')
        rec(tree)
        if tree.cat not in ev.roots:
            bad('root-not-allowed', f'tree {k}: root {tree.cat} is not an allowed root {sorted(map(str, ev.roots))}')
        if ev.n > 1 and tree.is_unary and not tree.is_leaf:
            bad('unary-at-root', f'tree {k}: unary step at the root of a {ev.n}-word sentence')
    return fails


# ------------------------------------------------------------------ C09
def score_fails(ev, P):
    fails = []
    if ev.exception is not None or ev.trees is None:
        return fails
    if ev.placeholder:
        return fails
    for k, st in enumerate(ev.trees):
        if st.tree.is_leaf and st.tree.token.get('word') == 'FAILED' and ev.n != 1:
            continue
        want, problems = oc.tree_score(st.tree, ev.tag_index, ev.sent['tag'], ev.sent['dep'],
                                       float(ev.cfg['unary_penalty']))
        if problems:
            continue            # malformed tree: C02's business
        if not close(float(st.score), want, ev.numeric):
            fails.append((f'{P}/score-mismatch', f'tree {k}: reported score {st.score!r}, model score of the '
                          f'returned tree {want!r} (unary_penalty={ev.cfg["unary_penalty"]})'))
    return fails


def placeholder_score_fails(ev, P):
    if ev.trees is not None and len(ev.trees) == 1:
        t = ev.trees[0]
        if t.tree.is_leaf and t.tree.token.get('word') == 'FAILED' \
                and ev.sent['words'] != ['FAILED'] and t.score != -INF:
            return [(f'{P}/placeholder-score', f'failure placeholder carries score {t.score!r}, not -inf')]
    return []


# ------------------------------------------------------------------ C01 / C16
def optimality_fails(ev, P, lo, hi):
    fails = []
    if ev.exception is not None or ev.trees is None:
        return fails
    if ev.placeholder:
        if lo['feasible']:
            fails.append((f'{P}/failed-but-parse-exists', f'sentence reported as failed although a licensed derivation '
                          f'with score {lo["best"]} exists over the admitted tags'))
        return fails
    if not hi['feasible']:
        fails.append((f'{P}/parsed-but-no-derivation', f'a tree with score {ev.trees[0].score} was returned although no '
                      'licensed derivation exists over the beam-admitted tags'))
        return fails
    got = float(ev.trees[0].score)
    if not leq(got, hi['best'], ev.numeric):
        fails.append((f'{P}/score-above-optimum', f'first parse scores {got}, above the optimum {hi["best"]} over '
                      'admitted tags'))
    if lo['feasible'] and not leq(lo['best'], got, ev.numeric):
        fails.append((f'{P}/suboptimal', f'first parse scores {got}; the best licensed derivation over the '
                      f'beam-admitted tags scores {lo["best"]}'))
    return fails


def monotone_fails(ev, P):
    fails = []
    if not ev.pops:
        return fails
    prev = None
    tol = 0.0 if ev.numeric == 'dyadic' else None
    for idx, (fin, ins, outs, start, ln, cat, head) in enumerate(ev.pops):
        f = ins + outs
        if prev is not None:
            rising = f > prev if tol == 0.0 else (f > prev + 1e-3 * (1 + abs(prev)))
            if rising:
                fails.append((f'{P}/pop-priority-rises', f'pop {idx} has priority {f} after {prev} '
                              f'(span {start}+{ln}, fin={fin})'))
                break
        prev = f
    return fails


# ------------------------------------------------------------------ C12(a)
def label_fails(ev, P):
    fails = []
    if ev.exception is not None or ev.trees is None or ev.placeholder:
        return fails
    for k, st in enumerate(ev.trees):
        def rec(node):
            if node.is_leaf:
                return
            if node.is_unary:
                ch = node.children[0]
                rec(ch)
                res = ev.memo.unary(ch.cat)
                if node.cat in [r[0] for r in res] and \
                        (node.cat, node.op_string, node.op_symbol) not in res:
                    fails.append((f'{P}/unary-label', f'tree {k}: {ch.cat} => {node.cat} carries label '
                                  f'({node.op_string}, {node.op_symbol}); the grammar results creating that category are '
                                  f'{[(r[1], r[2]) for r in res if r[0] == node.cat]}'))
                return
            l, r = node.children
            rec(l)
            rec(r)
            res = ev.memo.binary(l.cat, r.cat)
            if node.cat in [q[0] for q in res]:
                mine = (node.cat, node.op_string, node.op_symbol, bool(node.head_is_left))
                if mine not in res:
                    same = [q for q in res if q[0] == node.cat]
                    if (node.cat, node.op_string, node.op_symbol) in [q[:3] for q in same]:
                        key = 'binary-head-direction'
                    else:
                        key = 'binary-label'
                    fails.append((f'{P}/{key}', f'tree {k}: {l.cat} {r.cat} => {node.cat} carries '
                                  f'({node.op_string}, {node.op_symbol}, head_is_left={node.head_is_left}); grammar '
                                  f'results creating that category: {[q[1:] for q in same]}'))
        rec(st.tree)
    return fails


def count_multi_label_nodes(ev):
    """nodes whose children admit >= 2 differently-labelled results (non-trivial rule of C12)"""
    n = 0
    if ev.trees is None or ev.placeholder or ev.exception is not None:
        return 0
    for st in ev.trees:
        def rec(node):
            nonlocal n
            if node.is_leaf:
                return
            if node.is_unary:
                rec(node.children[0])
                if len(ev.memo.unary(node.children[0].cat)) >= 2:
                    n += 1
                return
            l, r = node.children
            rec(l)
            rec(r)
            if len(ev.memo.binary(l.cat, r.cat)) >= 2:
                n += 1
        rec(st.tree)
    return n


def tree_stats(ev):
    st = {'binary': 0, 'unary': 0, 'nonleft_heads': 0}
    if ev.trees is None or ev.placeholder or ev.exception is not None:
        return st
    for s in ev.trees:
        def rec(node):
            if node.is_leaf:
                return
            if node.is_unary:
                st['unary'] += 1
                rec(node.children[0])
                return
            st['binary'] += 1
            if not node.head_is_left:
                st['nonleft_heads'] += 1
            rec(node.children[0])
            rec(node.children[1])
        rec(s.tree)
    return st
