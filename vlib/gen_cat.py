"""G-cat / G-text: generators of category models and of their texts."""
import itertools

from vlib.model_cat import A, F, canon, ftxt

EN_BASES = ['S', 'NP', 'N', 'PP', 'PR']
EN_PUNCT = ['conj', ',', '.', ';', ':', 'LRB', 'RRB', 'LQU', 'RQU']
EN_FEATS = [None, 'dcl', 'b', 'ng', 'pss', 'em', 'adj', 'to', 'conj', 'X', 'nb']
SLASHES = ['/', '\\']
SLASHES_BAR = ['/', '\\', '|']

JA_S = (('mod', ['nm', 'adn', 'adv', 'X1']), ('form', ['base', 'cont', 'stem', 'attr', 'X2']),
        ('fin', ['f', 't', 'X3']))
JA_NP = (('case', ['nc', 'ga', 'o', 'ni', 'X1']), ('mod', ['nm', 'adn', 'adv', 'X2']),
         ('fin', ['f', 't', 'X3']))


def t_ja_feat(t, base, exotic=False):
    layout = JA_S if base == 'S' else JA_NP
    f = tuple((k, t.pick(vs)) for k, vs in layout)
    if exotic and t.chance(60):
        # three-part features are ordered key=value triples: the same pairs in another order, or a
        # repeated key, are different feature values (never in the shipped inventories, used for C05 / C13)
        k = t.below(4)
        if k == 0:
            f = (f[1], f[0], f[2])
        elif k == 1:
            f = (f[2], f[1], f[0])
        elif k == 2:
            f = (f[0], f[2], f[1])
        else:
            f = (f[0], f[0], f[2])
    return f


def t_atom(t, system, punct=True, exotic=False):
    if system == 'en':
        if punct and t.chance(48):
            return A(t.pick(EN_PUNCT))
        return A(t.pick(EN_BASES), t.pick(EN_FEATS))
    b = t.pick(['S', 'NP'])
    return A(b, t_ja_feat(t, b, exotic))


def t_cat(t, system, depth=3, bar=False, punct=True, exotic=False):
    """random category model; depth bounds nesting, zeros give an atom"""
    if depth <= 0 or not t.chance(150):
        return t_atom(t, system, punct, exotic)
    sl = SLASHES_BAR if bar else SLASHES
    left = t_cat(t, system, depth - 1, bar, punct, exotic)
    s = t.pick(sl)
    right = t_cat(t, system, depth - 1, bar, punct, exotic)
    return F(left, s, right)


def t_refeature(t, m, system, per256):
    """copy of m with each leaf feature redrawn with probability per256/256"""
    if m[0] == 'f':
        return F(t_refeature(t, m[1], system, per256), m[2], t_refeature(t, m[3], system, per256))
    if m[1] in EN_PUNCT or not t.chance(per256):
        return m
    if system == 'en':
        return A(m[1], t.pick(EN_FEATS))
    return A(m[1], t_ja_feat(t, m[1]))


# ------------------------------------------------------------------ exhaustive
def enum_atoms(system, reduced=True):
    if system == 'en':
        bases = ['S', 'NP', 'N'] if reduced else EN_BASES
        fs = [None, 'dcl', 'X', 'nb'] if reduced else EN_FEATS
        out = [A(b, f) for b in bases for f in fs]
        out += [A(p) for p in ([',', 'conj'] if reduced else EN_PUNCT)]
        return out
    out = []
    for b, layout in (('S', JA_S), ('NP', JA_NP)):
        vals = [[vs[0], vs[-1]] if reduced else vs for _, vs in layout]
        for combo in itertools.product(*vals):
            out.append(A(b, tuple((k, v) for (k, _), v in zip(layout, combo))))
    return out


def enum_cats(system, max_slashes, bar=True, reduced=True):
    """all category models with at most `max_slashes` slashes over a reduced alphabet"""
    sl = SLASHES_BAR if bar else SLASHES
    by_size = {0: enum_atoms(system, reduced)}
    for n in range(1, max_slashes + 1):
        cur = []
        for k in range(n):
            for l in by_size[k]:
                for r in by_size[n - 1 - k]:
                    for s in sl:
                        cur.append(F(l, s, r))
        by_size[n] = cur
    out = []
    for n in range(max_slashes + 1):
        out += by_size[n]
    return out


# ------------------------------------------------------------------ G-text
_SP = ['', '', '', ' ', '  ']


def t_text(t, m, top=True, max_extra=2):
    """a well-formed text of model m with redundant round/angle brackets and blanks"""
    if m[0] == 'a':
        s = m[1]
        if m[2] is not None:
            s += t.pick(_SP) + '[' + t.pick(_SP) + ftxt(m[2]) + t.pick(_SP) + ']'
        need = False
    else:
        s = (t_text(t, m[1], False, max_extra) + t.pick(_SP) + m[2] + t.pick(_SP)
             + t_text(t, m[3], False, max_extra))
        need = not top
    k = t.below(max_extra + 1) + (1 if need else 0)
    for _ in range(k):
        o, c = t.pick(['()', '()', '<>'])
        s = o + t.pick(_SP) + s + t.pick(_SP) + c
    return s


def ambiguous_texts(m):
    """texts obtained from the canonical text of m by removing exactly one *needed*
    bracket pair, so that two slashes meet at one level"""
    out = []
    if m[0] != 'f':
        return out

    def w(x):
        return '(' + canon(x) + ')' if x[0] == 'f' else canon(x)
    if m[1][0] == 'f':
        out.append(canon(m[1]) + m[2] + w(m[3]))
    if m[3][0] == 'f':
        out.append(w(m[1]) + m[2] + canon(m[3]))
    # deeper
    for t in ambiguous_texts(m[1]):
        out.append('(' + t + ')' + m[2] + w(m[3]))
    for t in ambiguous_texts(m[3]):
        out.append(w(m[1]) + m[2] + '(' + t + ')')
    return out


def mutate_one(draw_from, m, system):
    """all single-position edits of m (feature, base, slash) — for 'differs in exactly one position'"""
    out = []

    def rec(x, rebuild):
        if x[0] == 'a':
            if system == 'en':
                for f in EN_FEATS:
                    if f != x[2] and x[1] not in EN_PUNCT:
                        out.append(rebuild(A(x[1], f)))
                for b in EN_BASES:
                    if b != x[1] and x[1] not in EN_PUNCT:
                        out.append(rebuild(A(b, x[2])))
            else:
                layout = JA_S if x[1] == 'S' else JA_NP
                for i, (k, vs) in enumerate(layout):
                    for v in vs:
                        if v != x[2][i][1]:
                            f = tuple((kk, v if j == i else vv) for j, (kk, vv) in enumerate(x[2]))
                            out.append(rebuild(A(x[1], f)))
                f = x[2]
                for perm in ((f[1], f[0], f[2]), (f[0], f[2], f[1]), (f[2], f[1], f[0])):
                    if perm != f:
                        out.append(rebuild(A(x[1], perm)))
        else:
            for s in SLASHES_BAR:
                if s != x[2]:
                    out.append(rebuild(F(x[1], s, x[3])))
            rec(x[1], lambda y: rebuild(F(y, x[2], x[3])))
            rec(x[3], lambda y: rebuild(F(x[1], x[2], y)))
    rec(m, lambda y: y)
    return out
