"""Child interpreter for C14: applies the live rule functions to category texts read from stdin
(one JSON object per line) and prints the serialised results. Started with an explicit PYTHONHASHSEED."""
import json
import sys


def serialise(results):
    return [[str(r.cat), r.op_string, r.op_symbol, bool(r.head_is_left)] for r in results]


def main():
    from vlib import env  # noqa: F401
    from depccg.cat import Category
    from depccg.grammar import en, ja
    g = {'en': en, 'ja': ja}
    for line in sys.stdin:
        line = line.strip()
        if not line:
            continue
        q = json.loads(line)
        try:
            mod = g[q['lang']]
            if q.get('pickled'):
                # the arguments were built in the parent (another hash seed) and arrive pickled, the way
                # depccg.parsing hands its rule functions and tables to worker processes
                import base64
                import pickle
                obj = pickle.loads(base64.b64decode(q['pickled']))
                if q['op'] == 'binary':
                    kw = {'seen_rules': obj['seen']} if obj.get('seen') is not None else {}
                    out = {'ok': serialise(mod.apply_binary_rules(obj['x'], obj['y'], **kw))}
                else:
                    out = {'ok': serialise(mod.apply_unary_rules(obj['x'], obj['table']))}
            elif q['op'] == 'binary':
                x, y = Category.parse(q['x']), Category.parse(q['y'])
                kw = {}
                if q.get('seen') is not None:
                    kw['seen_rules'] = {(Category.parse(a), Category.parse(b)) for a, b in q['seen']}
                out = {'ok': serialise(mod.apply_binary_rules(x, y, **kw))}
            else:
                x = Category.parse(q['x'])
                table = {}
                for k, vs in q['table']:
                    table[Category.parse(k)] = [Category.parse(v) for v in vs]
                out = {'ok': serialise(mod.apply_unary_rules(x, table))}
        except Exception as ex:
            out = {'exc': f'{type(ex).__name__}: {ex}'}
        sys.stdout.write(json.dumps(out) + '\n')
        sys.stdout.flush()


if __name__ == '__main__':
    main()
