"""A 'tape' data provider: every generator is a pure function of a byte string.

Hypothesis draws one fixed-size `st.binary` per case (cheap, seeded, shrinkable:
smaller bytes = simpler choices, and 0 always selects the first/simplest option);
the same builders can be driven by atheris' coverage-guided bytes.
"""
from hypothesis import strategies as st


class Tape:
    __slots__ = ('d', 'i')

    def __init__(self, data):
        self.d = data
        self.i = 0

    def byte(self):
        i = self.i
        self.i = i + 1
        return self.d[i] if i < len(self.d) else 0

    def below(self, n):
        if n <= 1:
            return 0
        if n <= 256:
            return self.byte() % n
        return ((self.byte() << 8) | self.byte()) % n

    def int(self, lo, hi):
        return lo + self.below(hi - lo + 1)

    def pick(self, seq):
        return seq[self.below(len(seq))]

    def chance(self, per256):
        """true with probability per256/256; byte 0 -> False unless per256 >= 256"""
        return (255 - self.byte()) < per256 if per256 < 256 else True

    def weighted(self, pairs):
        """pairs: [(weight, value)], first = simplest"""
        total = sum(w for w, _ in pairs)
        r = self.below(total)
        for w, v in pairs:
            if r < w:
                return v
            r -= w
        return pairs[-1][1]

    def tail(self, k=0):
        """byte k from the end of the tape, read without consuming anything: lets a builder gain a choice without
        shifting the draws of the builders that follow it (recorded tapes keep their meaning)"""
        return self.d[-1 - k] if len(self.d) > k else 0

    def exhausted(self):
        return self.i > len(self.d)


def tapes(n):
    return st.binary(min_size=n, max_size=n)
