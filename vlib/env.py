"""Paths and import shims.  Must be imported before anything from `depccg`.

* puts the repository working tree (VERIF_REPO, default /repo) first on sys.path;
* installs a sys.meta_path finder that serves inert stub modules for the
  third-party packages that are absent from this sandbox (DESIGN.md 3.1);
  nothing that a property anchors is stubbed.
"""
import importlib.abc
import importlib.machinery
import json as _json
import logging
import os
import sys
import types
import warnings

VERIF = os.path.dirname(os.path.dirname(os.path.abspath(__file__)))
REPO = os.environ.get('VERIF_REPO', '/repo')
GUARD = 'DEPCCG_VERIF'

STUB_ROOTS = {
    'six', 'scipy', 'chainer', 'allennlp', 'nltk', 'yaml', 'spacy', 'janome',
    'torch', 'cupy', 'overrides', 'google_drive_downloader', 'Cython', 'cython',
    'jsonnet', '_jsonnet',
}
STUB_REPO_MODULES = ('depccg.chainer', 'depccg.morpha')


class _StubMeta(type):
    def __getattr__(cls, name):
        if name.startswith('__') and name.endswith('__'):
            raise AttributeError(name)
        return _make(name)

    def __call__(cls, *a, **k):
        # used as decorator (factory) or constructor
        if len(a) == 1 and not k and (isinstance(a[0], type) or callable(a[0])):
            return a[0]
        return type.__call__(cls)


def _make(name):
    return _StubMeta(name, (), {
        '__init__': lambda self, *a, **k: None,
        '__call__': lambda self, *a, **k: (a[0] if a else None),
        '__getattr__': lambda self, n: _make(n),
    })


class StubModule(types.ModuleType):
    __all__ = []

    def __getattr__(self, name):
        if name.startswith('__') and name.endswith('__'):
            raise AttributeError(name)
        return _make(name)


class _Finder(importlib.abc.MetaPathFinder, importlib.abc.Loader):
    def find_spec(self, fullname, path, target=None):
        root = fullname.split('.')[0]
        if root in STUB_ROOTS or any(
                fullname == m or fullname.startswith(m + '.') for m in STUB_REPO_MODULES):
            return importlib.machinery.ModuleSpec(fullname, self, is_package=True)
        return None

    def create_module(self, spec):
        m = StubModule(spec.name)
        m.__path__ = []
        return m

    def exec_module(self, module):
        if module.__name__ == 'allennlp.common.params':
            from vlib import jsonnet_lite
            module.Params = jsonnet_lite.Params


_installed = False
_tempdirs = []          # (pid, path) scratch directories created by this process


def register_tempdir(path):
    import atexit
    import shutil
    _tempdirs.append((os.getpid(), path))
    atexit.register(shutil.rmtree, path, True)


def cleanup_tempdirs():
    """remove the scratch directories this process created (forked shard workers leave through os._exit,
    which skips atexit handlers)"""
    import shutil
    me = os.getpid()
    for pid, path in list(_tempdirs):
        if pid == me:
            shutil.rmtree(path, True)
            _tempdirs.remove((pid, path))



def install():
    global _installed
    if _installed:
        return
    _installed = True
    if VERIF not in sys.path:
        sys.path.insert(0, VERIF)
    # the repository working tree must win over any installed copy
    while REPO in sys.path:
        sys.path.remove(REPO)
    sys.path.insert(0, REPO)
    sys.meta_path.insert(0, _Finder())
    sj = types.ModuleType('simplejson')
    for k in ('dumps', 'loads', 'dump', 'load', 'JSONDecodeError'):
        setattr(sj, k, getattr(_json, k))
    sys.modules['simplejson'] = sj
    class _tqdm_meta(type):
        def __getattr__(cls, name):             # class-level calls: tqdm.write, tqdm.set_lock, tqdm.get_lock, ...
            if name.startswith('__'):
                raise AttributeError(name)
            if name == 'get_lock':
                import threading
                return lambda *a, **k: threading.RLock()
            return lambda *a, **k: None

    class _tqdm(metaclass=_tqdm_meta):
        """progress bar stand-in: iterates its argument, accepts the usual calls and does nothing"""

        def __init__(self, iterable=None, *a, **k):
            self.iterable = iterable
            self.n = 0
            self.total = k.get('total')

        def __iter__(self):
            return iter(self.iterable if self.iterable is not None else ())

        def __len__(self):
            return len(self.iterable)

        def __enter__(self):
            return self

        def __exit__(self, *a):
            return False

        def __getattr__(self, name):
            if name.startswith('__'):
                raise AttributeError(name)
            return lambda *a, **k: None         # update, close, set_postfix, set_description, refresh, write, ...
    for name in ('tqdm', 'tqdm.auto', 'tqdm.std', 'tqdm.notebook'):
        t = types.ModuleType(name)
        t.tqdm = _tqdm
        t.trange = lambda *a, **k: range(*a)
        t.__path__ = []
        sys.modules[name] = t
    sys.modules['tqdm'].auto = sys.modules['tqdm.auto']
    warnings.simplefilter('ignore')
    logging.disable(logging.CRITICAL)


install()
