"""M-tree: structural snapshots of Tree objects used as the reference for readers / decoders."""
import os
import shutil
import tempfile
import atexit

_scratch = None


def scratch_dir():
    global _scratch
    if _scratch is None or not os.path.isdir(_scratch) or _scratch_pid[0] != os.getpid():
        _scratch = tempfile.mkdtemp(prefix='depccg_verif_io_')
        _scratch_pid[0] = os.getpid()
        from vlib import env as _env
        _env.register_tempdir(_scratch)
    return _scratch


_scratch_pid = [None]
_counter = [0]


def scratch_file(suffix):
    _counter[0] += 1
    return os.path.join(scratch_dir(), f'f{os.getpid()}_{_counter[0]}{suffix}')


def full(tree):
    """complete snapshot: categories, labels, symbols, head flags, token dicts"""
    if not tree.children:
        return ('BROKEN-NO-CHILDREN', str(tree.cat), tree.op_string, tree.op_symbol)
    if tree.is_leaf:
        return ('L', str(tree.cat), tree.op_string, tree.op_symbol, dict(tree.token))
    if tree.is_unary:
        return ('U', str(tree.cat), tree.op_string, tree.op_symbol, bool(tree.head_is_left), full(tree.children[0]))
    return ('B', str(tree.cat), tree.op_string, tree.op_symbol, bool(tree.head_is_left),
            full(tree.children[0]), full(tree.children[1]))


def shape(tree, leaf=lambda t: (), node=lambda t: ()):
    """projection: categories + shape + whatever `leaf` / `node` add"""
    if tree.is_leaf:
        return ('L', str(tree.cat)) + tuple(leaf(tree))
    if tree.is_unary:
        return ('U', str(tree.cat)) + tuple(node(tree)) + (shape(tree.children[0], leaf, node),)
    return ('B', str(tree.cat)) + tuple(node(tree)) + (shape(tree.children[0], leaf, node),
                                                        shape(tree.children[1], leaf, node))


def first_diff(a, b, path='root'):
    """human-readable location of the first difference between two nested tuples"""
    if type(a) != type(b):
        return f'{path}: {a!r} vs {b!r}'
    if isinstance(a, tuple):
        if len(a) != len(b):
            return f'{path}: {a!r} vs {b!r}'
        for i, (x, y) in enumerate(zip(a, b)):
            d = first_diff(x, y, f'{path}.{i}')
            if d:
                return d
        return None
    return None if a == b else f'{path}: {a!r} vs {b!r}'
