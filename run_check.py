#!/venv/bin/python
"""Entry point: run_check.py <ID> [--tier quick|thorough] [--replay FILE]

exit 0: property held on everything explored (KNOWN-FINDING lines possible)
exit 1: VIOLATION property=<ID> replay=<path>
exit 2: the harness could not build or run the subject
"""
import argparse
import importlib
import json
import os
import sys
import traceback

HERE = os.path.dirname(os.path.abspath(__file__))
sys.path.insert(0, HERE)
DEPS = os.path.join(HERE, '.deps')
if os.path.isdir(DEPS):
    sys.path.insert(1, DEPS)


def main():
    ap = argparse.ArgumentParser()
    ap.add_argument('prop')
    ap.add_argument('--tier', default=os.environ.get('VERIF_TIER', 'quick'),
                    choices=['quick', 'thorough'])
    ap.add_argument('--replay')
    args = ap.parse_args()
    prop = args.prop.upper()
    try:
        seed = int(os.environ.get('VERIF_SEED', '1') or '1')
    except ValueError:
        seed = 1
    if 'PYTHONHASHSEED' not in os.environ:
        # a run is a function of the code and VERIF_SEED only: pin string hashing for this process and its children
        # (the interpreter reads the variable at start-up, so start again with it set)
        os.environ['PYTHONHASHSEED'] = '0'
        os.execv(sys.executable, [sys.executable] + sys.argv)
    try:
        from vlib import env  # noqa: F401  (installs shims, puts /repo first)
        from vlib import runner
        mod = importlib.import_module(f'checks.{prop.lower()}')
    except Exception:
        traceback.print_exc()
        print(f'HARNESS-ERROR property={prop}: cannot import the check or the subject')
        return 2

    if args.replay:
        try:
            with open(args.replay) as f:
                body = json.load(f)
            case = body['case'] if 'case' in body else body
            fails = mod.replay(case)
        except Exception:
            traceback.print_exc()
            print(f'HARNESS-ERROR property={prop}: replay failed to run')
            return 2
        known = runner.load_known(prop)
        bad = [(k, m) for k, m in fails if k not in known]
        for k, m in fails:
            tag = 'KNOWN-FINDING:' if k in known else 'FAIL'
            print(f'{tag} property={prop} {k}: {str(m)[:800]}')
        if bad:
            print(f'VIOLATION property={prop} replay={os.path.abspath(args.replay)}')
            return 1
        print(f'{prop}: replay passes')
        return 0

    ctx = runner.Ctx(prop, args.tier, seed)
    try:
        # regression corpus first (seconds)
        n = 0
        for name, body in runner.corpus_cases(prop):
            case = body['case'] if 'case' in body else body
            fails = mod.replay(case)
            ctx.report_direct([(k, f'[corpus/{name}] {m}') for k, m in fails], case)
            n += 1
        ctx.notes['corpus_cases_replayed'] = n
        rc_info = mod.run(ctx)
        rule, level, assumptions = rc_info
        return ctx.finish(rule, level, assumptions)
    except runner.HarnessError:
        traceback.print_exc()
        print(f'HARNESS-ERROR property={prop}')
        return 2
    except Exception:
        traceback.print_exc()
        print(f'HARNESS-ERROR property={prop}: unexpected exception in the harness')
        return 2


if __name__ == '__main__':
    sys.exit(main())
