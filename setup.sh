#!/bin/sh
# Offline setup: make sure hypothesis (and numpy/lxml, already part of /venv) are importable
# by /venv/bin/python; install from the local wheelhouse if they are not.
set -e
cd "$(dirname "$0")"
if ! /venv/bin/python -c "import hypothesis" 2>/dev/null; then
  /venv/bin/pip install --no-index --find-links /opt/veriftools/wheels hypothesis
fi
/venv/bin/python -c "import hypothesis, numpy, lxml; print('hypothesis', hypothesis.__version__)"
# optional: atheris for the coverage-guided campaigns of the thorough tier (kept out of /venv)
if ! PYTHONPATH=/verif/.deps /venv/bin/python -c "import atheris" 2>/dev/null; then
  /venv/bin/pip install --no-index --find-links /opt/veriftools/wheels --target /verif/.deps atheris >/dev/null 2>&1 || echo "atheris not installable here (optional)"
fi
g++ --version | head -1
mkdir -p evidence replays
echo setup-ok
